//! Scripted actor systems: the table-driven actor `Tab`, the reference interpreter `RefSys`/`RNet`
//! (DESIGN appendix A), conversions between reference and real system states, and `xplore`.

use serde::{Deserialize, Serialize};
use stateright::actor::*;
use stateright::*;
use std::borrow::Cow;
use std::collections::{BTreeMap, BTreeSet, VecDeque};
use std::sync::{Arc, Mutex};

// ------------------------------------------------------------------------------------------------
// The scripted actor
// ------------------------------------------------------------------------------------------------

#[derive(Clone, Debug, PartialEq, Eq, PartialOrd, Ord, Hash, Serialize, Deserialize)]
pub enum Cmd {
    Send(u8, u8),
    SetTimer(u8),
    CancelTimer(u8),
    /// empty list = remove_random(key)
    Choose(String, Vec<u8>),
}

#[derive(Clone, Debug, PartialEq, Eq, PartialOrd, Ord, Hash, Serialize, Deserialize)]
pub enum StOp {
    /// leave the Cow borrowed
    Keep,
    /// make the Cow owned, same value
    Touch,
    /// new value
    Set(u8),
}

#[derive(Clone, Debug, PartialEq, Eq, PartialOrd, Ord, Hash, Serialize, Deserialize)]
pub struct Output {
    pub st: StOp,
    pub cmds: Vec<Cmd>,
}

impl Output {
    pub fn nop() -> Output {
        Output { st: StOp::Keep, cmds: vec![] }
    }
}

#[derive(Clone, Debug, PartialEq, Eq, PartialOrd, Ord, Hash, Serialize, Deserialize)]
pub enum Ev {
    Start,
    Msg(u8, u8),
    Timeout(u8),
    Random(u8),
}

pub const ANY: u8 = 255;

#[derive(Clone, Debug, PartialEq, Eq, Serialize, Deserialize)]
pub struct Call {
    pub id: u8,
    pub local: Option<u8>,
    pub ev: Ev,
}

#[derive(Clone, Debug, Default)]
pub struct Tab {
    /// (local state or ANY, event) -> output. `Start` uses local = ANY and must `Set` the state.
    pub table: BTreeMap<(u8, Ev), Output>,
    pub log: Option<Arc<Mutex<Vec<Call>>>>,
}

impl Tab {
    pub fn new(entries: Vec<((u8, Ev), Output)>) -> Tab {
        Tab { table: entries.into_iter().collect(), log: None }
    }
    pub fn lookup(&self, local: u8, ev: &Ev) -> Output {
        if let Some(o) = self.table.get(&(local, ev.clone())) {
            return o.clone();
        }
        if let Some(o) = self.table.get(&(ANY, ev.clone())) {
            return o.clone();
        }
        Output::nop()
    }
    /// Issues the commands through the whole `Out` API: runs of sends of one message go through `broadcast`,
    /// command lists of odd length are built in a second `Out` and moved over with `append`; everything else
    /// uses the plain methods. The reference semantics does not care which way a command was issued.
    fn emit(cmds: &[Cmd], o: &mut Out<Self>) {
        if cmds.len() % 2 == 1 {
            let mut tmp: Out<Self> = Out::new();
            Self::emit_into(cmds, &mut tmp);
            o.append(&mut tmp);
        } else {
            Self::emit_into(cmds, o);
        }
    }
    fn emit_into(cmds: &[Cmd], o: &mut Out<Self>) {
        let mut i = 0;
        while i < cmds.len() {
            if let Cmd::Send(_, m) = &cmds[i] {
                let mut j = i;
                let mut dsts = Vec::new();
                while j < cmds.len() {
                    match &cmds[j] {
                        Cmd::Send(d2, m2) if m2 == m => dsts.push(Id::from(*d2 as usize)),
                        _ => break,
                    }
                    j += 1;
                }
                if dsts.len() >= 2 {
                    o.broadcast(&dsts, m);
                    i = j;
                    continue;
                }
            }
            Self::emit_one(&cmds[i], o);
            i += 1;
        }
    }
    fn emit_one(c: &Cmd, o: &mut Out<Self>) {
        {
            match c {
                Cmd::Send(d, m) => o.send(Id::from(*d as usize), *m),
                Cmd::SetTimer(t) => o.set_timer(*t, model_timeout()),
                Cmd::CancelTimer(t) => o.cancel_timer(*t),
                Cmd::Choose(k, l) => {
                    if l.is_empty() {
                        // the two spellings of "retract the pending choice"
                        if k == "y" {
                            o.choose_random(k.clone(), Vec::new())
                        } else {
                            o.remove_random(k.clone())
                        }
                    } else {
                        o.choose_random(k.clone(), l.clone())
                    }
                }
            }
        }
    }
    fn handle(&self, id: Id, state: &mut Cow<u8>, ev: Ev, o: &mut Out<Self>) {
        if let Some(l) = &self.log {
            l.lock().unwrap().push(Call { id: usize::from(id) as u8, local: Some(**state), ev: ev.clone() });
        }
        let out = self.lookup(**state, &ev);
        match out.st {
            StOp::Keep => {}
            StOp::Touch => {
                let v = **state;
                *state = Cow::Owned(v);
            }
            StOp::Set(v) => {
                *state.to_mut() = v;
            }
        }
        Self::emit(&out.cmds, o);
    }
}

impl Actor for Tab {
    type Msg = u8;
    type State = u8;
    type Timer = u8;
    type Random = u8;
    fn on_start(&self, id: Id, o: &mut Out<Self>) -> u8 {
        if let Some(l) = &self.log {
            l.lock().unwrap().push(Call { id: usize::from(id) as u8, local: None, ev: Ev::Start });
        }
        let out = self.lookup(ANY, &Ev::Start);
        Self::emit(&out.cmds, o);
        match out.st {
            StOp::Set(v) => v,
            _ => 0,
        }
    }
    fn on_msg(&self, id: Id, state: &mut Cow<u8>, src: Id, msg: u8, o: &mut Out<Self>) {
        self.handle(id, state, Ev::Msg(usize::from(src) as u8, msg), o)
    }
    fn on_timeout(&self, id: Id, state: &mut Cow<u8>, timer: &u8, o: &mut Out<Self>) {
        self.handle(id, state, Ev::Timeout(*timer), o)
    }
    fn on_random(&self, id: Id, state: &mut Cow<u8>, random: &u8, o: &mut Out<Self>) {
        self.handle(id, state, Ev::Random(*random), o)
    }
}

// ------------------------------------------------------------------------------------------------
// History hooks
// ------------------------------------------------------------------------------------------------

#[derive(Clone, Copy, Debug, PartialEq, Eq, Serialize, Deserialize)]
pub enum HistMode {
    Off,
    All,
    /// only messages with value 0 ("a")
    OnlyA,
}

/// (direction 0=in 1=out, src, dst, msg)
pub type Hist = Vec<(u8, u8, u8, u8)>;

fn rec(mode: &HistMode, h: &Hist, dir: u8, e: Envelope<&u8>) -> Option<Hist> {
    let take = match mode {
        HistMode::Off => false,
        HistMode::All => true,
        HistMode::OnlyA => *e.msg == 0,
    };
    if !take {
        return None;
    }
    let mut h = h.clone();
    h.push((dir, usize::from(e.src) as u8, usize::from(e.dst) as u8, *e.msg));
    Some(h)
}
fn rec_in(mode: &HistMode, h: &Hist, e: Envelope<&u8>) -> Option<Hist> {
    rec(mode, h, 0, e)
}
fn rec_out(mode: &HistMode, h: &Hist, e: Envelope<&u8>) -> Option<Hist> {
    rec(mode, h, 1, e)
}

// ------------------------------------------------------------------------------------------------
// Reference state
// ------------------------------------------------------------------------------------------------

pub type Env = (u8, u8, u8); // src, dst, msg

#[derive(Clone, Copy, Debug, PartialEq, Eq, PartialOrd, Ord, Hash, Serialize, Deserialize)]
pub enum NetKind {
    Ordered,
    NonDup,
    Dup,
}

/// JSON-portable form of a network (maps with tuple keys do not serialize to JSON).
#[derive(Clone, Debug, Serialize, Deserialize)]
pub struct PNet {
    pub kind: NetKind,
    /// every copy, in an order that rebuilds the same network through send()
    pub envelopes: Vec<Env>,
    pub last_delivered: Option<Env>,
}
impl From<RNet> for PNet {
    fn from(n: RNet) -> PNet {
        let last = if let RNet::Dup(_, l) = &n { *l } else { None };
        PNet { kind: n.kind(), envelopes: n.all(), last_delivered: last }
    }
}
impl From<PNet> for RNet {
    fn from(p: PNet) -> RNet {
        let mut n = RNet::empty(p.kind);
        for e in p.envelopes {
            n.send(e);
        }
        if let RNet::Dup(_, l) = &mut n {
            *l = p.last_delivered;
        }
        n
    }
}

#[derive(Clone, Debug, PartialEq, Eq, PartialOrd, Ord, Hash, Serialize, Deserialize)]
#[serde(into = "PNet", from = "PNet")]
pub enum RNet {
    Ordered(BTreeMap<(u8, u8), VecDeque<u8>>),
    NonDup(BTreeMap<Env, usize>),
    Dup(BTreeSet<Env>, Option<Env>),
}

impl RNet {
    pub fn empty(k: NetKind) -> RNet {
        match k {
            NetKind::Ordered => RNet::Ordered(BTreeMap::new()),
            NetKind::NonDup => RNet::NonDup(BTreeMap::new()),
            NetKind::Dup => RNet::Dup(BTreeSet::new(), None),
        }
    }
    pub fn kind(&self) -> NetKind {
        match self {
            RNet::Ordered(_) => NetKind::Ordered,
            RNet::NonDup(_) => NetKind::NonDup,
            RNet::Dup(..) => NetKind::Dup,
        }
    }
    pub fn send(&mut self, e: Env) {
        match self {
            RNet::Ordered(f) => f.entry((e.0, e.1)).or_default().push_back(e.2),
            RNet::NonDup(m) => *m.entry(e).or_insert(0) += 1,
            RNet::Dup(s, _) => {
                s.insert(e);
            }
        }
    }
    /// every copy once
    pub fn all(&self) -> Vec<Env> {
        match self {
            RNet::Ordered(f) => f.iter().flat_map(|((s, d), q)| q.iter().map(move |m| (*s, *d, *m))).collect(),
            RNet::NonDup(m) => m.iter().flat_map(|(e, c)| std::iter::repeat(*e).take(*c)).collect(),
            RNet::Dup(s, _) => s.iter().copied().collect(),
        }
    }
    pub fn deliverable(&self) -> Vec<Env> {
        match self {
            RNet::Ordered(f) => f.iter().filter_map(|((s, d), q)| q.front().map(|m| (*s, *d, *m))).collect(),
            RNet::NonDup(m) => m.keys().copied().collect(),
            RNet::Dup(s, _) => s.iter().copied().collect(),
        }
    }
    pub fn len(&self) -> usize {
        self.all().len()
    }
    fn take_one(&mut self, e: Env) {
        match self {
            RNet::Ordered(f) => {
                let q = f.get_mut(&(e.0, e.1)).expect("flow");
                assert_eq!(q.front(), Some(&e.2), "only heads are consumed");
                q.pop_front();
                if q.is_empty() {
                    f.remove(&(e.0, e.1));
                }
            }
            RNet::NonDup(m) => {
                let c = m.get_mut(&e).expect("copy");
                *c -= 1;
                if *c == 0 {
                    m.remove(&e);
                }
            }
            RNet::Dup(..) => unreachable!(),
        }
    }
    pub fn deliver(&mut self, e: Env) {
        match self {
            RNet::Dup(_, last) => *last = Some(e),
            _ => self.take_one(e),
        }
    }
    pub fn drop_one(&mut self, e: Env) {
        match self {
            RNet::Dup(s, _) => {
                s.remove(&e);
            }
            _ => self.take_one(e),
        }
    }
}

#[derive(Clone, Debug, PartialEq, Eq, PartialOrd, Ord, Hash, Serialize, Deserialize)]
pub struct RState {
    pub local: Vec<u8>,
    pub up: Vec<bool>,
    pub timers: Vec<BTreeSet<u8>>,
    pub choices: Vec<BTreeMap<String, Vec<u8>>>,
    pub net: RNet,
    pub hist: Hist,
}

#[derive(Clone, Debug, PartialEq, Eq, PartialOrd, Ord, Hash, Serialize, Deserialize)]
pub enum RAct {
    Deliver(u8, u8, u8),
    Drop(u8, u8, u8),
    Timeout(u8, u8),
    Crash(u8),
    Select(u8, String, u8),
}

#[derive(Clone, Debug, PartialEq, Serialize, Deserialize)]
pub struct SysCfg {
    pub kind: NetKind,
    pub lossy: bool,
    pub max_crashes: usize,
    pub hist: HistMode,
}

pub struct RefSys;

impl RefSys {
    fn hist_push(cfg: &SysCfg, h: &mut Hist, dir: u8, e: Env) {
        let take = match cfg.hist {
            HistMode::Off => false,
            HistMode::All => true,
            HistMode::OnlyA => e.2 == 0,
        };
        if take {
            h.push((dir, e.0, e.1, e.2));
        }
    }
    /// "process_commands": in emission order
    pub fn apply(cfg: &SysCfg, s: &mut RState, i: usize, out: &Output) {
        if let StOp::Set(v) = out.st {
            s.local[i] = v;
        }
        for c in &out.cmds {
            match c {
                Cmd::Send(d, m) => {
                    let e = (i as u8, *d, *m);
                    Self::hist_push(cfg, &mut s.hist, 1, e);
                    s.net.send(e);
                }
                Cmd::SetTimer(t) => {
                    s.timers[i].insert(*t);
                }
                Cmd::CancelTimer(t) => {
                    s.timers[i].remove(t);
                }
                Cmd::Choose(k, l) => {
                    if l.is_empty() {
                        s.choices[i].remove(k);
                    } else {
                        s.choices[i].insert(k.clone(), l.clone());
                    }
                }
            }
        }
    }
    pub fn init(cfg: &SysCfg, starts: &[Output], init_net: &RNet) -> RState {
        let n = starts.len();
        let mut s = RState {
            local: vec![0; n],
            up: vec![true; n],
            timers: vec![BTreeSet::new(); n],
            choices: vec![BTreeMap::new(); n],
            net: init_net.clone(),
            hist: vec![],
        };
        for (i, o) in starts.iter().enumerate() {
            s.local[i] = match o.st {
                StOp::Set(v) => v,
                _ => 0,
            };
            let o2 = Output { st: StOp::Keep, cmds: o.cmds.clone() };
            Self::apply(cfg, &mut s, i, &o2);
        }
        s
    }
    pub fn enabled(cfg: &SysCfg, s: &RState) -> Vec<RAct> {
        let n = s.local.len();
        let mut v = Vec::new();
        for (a, b, m) in s.net.deliverable() {
            if cfg.lossy {
                v.push(RAct::Drop(a, b, m));
            }
            if (b as usize) < n {
                v.push(RAct::Deliver(a, b, m));
            }
        }
        for i in 0..n {
            for t in &s.timers[i] {
                v.push(RAct::Timeout(i as u8, *t));
            }
        }
        let down = s.up.iter().filter(|u| !**u).count();
        if down < cfg.max_crashes {
            for i in 0..n {
                if s.up[i] {
                    v.push(RAct::Crash(i as u8));
                }
            }
        }
        for i in 0..n {
            for (k, l) in &s.choices[i] {
                for r in l {
                    v.push(RAct::Select(i as u8, k.clone(), *r));
                }
            }
        }
        v
    }
    /// The event an action hands to which actor (None for Drop/Crash).
    pub fn event_of(a: &RAct) -> Option<(usize, Ev)> {
        match a {
            RAct::Deliver(s, d, m) => Some((*d as usize, Ev::Msg(*s, *m))),
            RAct::Timeout(i, t) => Some((*i as usize, Ev::Timeout(*t))),
            RAct::Select(i, _, r) => Some((*i as usize, Ev::Random(*r))),
            _ => None,
        }
    }
    /// Successor(s) the reference allows. `None` in the list = "no transition" is allowed.
    /// More than one entry only where the statement leaves latitude (Touch without commands on an
    /// unordered network).
    pub fn step(cfg: &SysCfg, s: &RState, a: &RAct, out: &Output) -> Vec<Option<RState>> {
        let mut n = s.clone();
        match a {
            RAct::Deliver(src, d, m) => {
                let i = *d as usize;
                if i >= s.local.len() || !s.up[i] {
                    return vec![None];
                }
                let unordered = cfg.kind != NetKind::Ordered;
                if unordered && out.cmds.is_empty() && out.st == StOp::Keep {
                    return vec![None];
                }
                let e = (*src, *d, *m);
                Self::hist_push(cfg, &mut n.hist, 0, e);
                n.net.deliver(e);
                Self::apply(cfg, &mut n, i, out);
                if unordered && out.cmds.is_empty() && out.st == StOp::Touch {
                    return vec![Some(n), None];
                }
                vec![Some(n)]
            }
            RAct::Drop(src, d, m) => {
                n.net.drop_one((*src, *d, *m));
                vec![Some(n)]
            }
            RAct::Timeout(i, t) => {
                let i = *i as usize;
                n.timers[i].remove(t);
                Self::apply(cfg, &mut n, i, out);
                vec![Some(n)]
            }
            RAct::Crash(i) => {
                let i = *i as usize;
                n.up[i] = false;
                n.timers[i].clear();
                n.choices[i].clear();
                vec![Some(n)]
            }
            RAct::Select(i, k, _) => {
                let i = *i as usize;
                n.choices[i].remove(k);
                Self::apply(cfg, &mut n, i, out);
                vec![Some(n)]
            }
        }
    }
}

// ------------------------------------------------------------------------------------------------
// Real <-> reference
// ------------------------------------------------------------------------------------------------

pub type Sys = ActorModel<Tab, HistMode, Hist>;
pub type SysState = ActorModelState<Tab, Hist>;
pub type SysAction = ActorModelAction<u8, u8, u8>;

fn env_real(e: Env) -> Envelope<u8> {
    Envelope { src: Id::from(e.0 as usize), dst: Id::from(e.1 as usize), msg: e.2 }
}
fn idu(i: Id) -> u8 {
    usize::from(i) as u8
}

pub fn net_to_real(n: &RNet) -> Network<u8> {
    match n {
        RNet::Ordered(_) => Network::new_ordered(n.all().into_iter().map(env_real)),
        RNet::NonDup(_) => Network::new_unordered_nonduplicating(n.all().into_iter().map(env_real)),
        RNet::Dup(_, last) => Network::new_unordered_duplicating_with_last_msg(n.all().into_iter().map(env_real), last.map(env_real)),
    }
}

/// Reads the contents through the public enum variants (not through iter_all/len, which are
/// themselves under test).
pub fn net_from_real(n: &Network<u8>) -> RNet {
    match n {
        Network::Ordered(map) => RNet::Ordered(map.iter().map(|((s, d), q)| ((idu(*s), idu(*d)), q.iter().copied().collect())).collect()),
        Network::UnorderedNonDuplicating(m) => RNet::NonDup(m.iter().map(|(e, c)| ((idu(e.src), idu(e.dst), e.msg), *c)).collect()),
        Network::UnorderedDuplicating(s, last) => RNet::Dup(
            s.iter().map(|e| (idu(e.src), idu(e.dst), e.msg)).collect(),
            last.as_ref().map(|e| (idu(e.src), idu(e.dst), e.msg)),
        ),
    }
}

pub fn to_real(s: &RState) -> SysState {
    ActorModelState {
        actor_states: s.local.iter().map(|v| Arc::new(*v)).collect(),
        network: net_to_real(&s.net),
        timers_set: s
            .timers
            .iter()
            .map(|ts| {
                let mut t = Timers::new();
                for x in ts {
                    t.set(*x);
                }
                t
            })
            .collect(),
        random_choices: s
            .choices
            .iter()
            .map(|c| {
                let mut r = RandomChoices::default();
                for (k, l) in c {
                    r.insert(k.clone(), l.clone());
                }
                r
            })
            .collect(),
        crashed: s.up.iter().map(|u| !*u).collect(),
        history: s.hist.clone(),
    }
}

/// Canonical key built from the public fields (sorted everything).
pub fn from_real(s: &SysState) -> RState {
    RState {
        local: s.actor_states.iter().map(|a| **a).collect(),
        up: s.crashed.iter().map(|c| !*c).collect(),
        timers: s.timers_set.iter().map(|t| t.iter().copied().collect()).collect(),
        choices: s.random_choices.iter().map(|r| r.map.iter().map(|(k, l)| (k.clone(), l.clone())).collect()).collect(),
        net: net_from_real(&s.network),
        hist: s.history.clone(),
    }
}

pub fn act_to_real(a: &RAct) -> SysAction {
    match a {
        RAct::Deliver(s, d, m) => ActorModelAction::Deliver { src: Id::from(*s as usize), dst: Id::from(*d as usize), msg: *m },
        RAct::Drop(s, d, m) => ActorModelAction::Drop(env_real((*s, *d, *m))),
        RAct::Timeout(i, t) => ActorModelAction::Timeout(Id::from(*i as usize), *t),
        RAct::Crash(i) => ActorModelAction::Crash(Id::from(*i as usize)),
        RAct::Select(i, k, r) => ActorModelAction::SelectRandom { actor: Id::from(*i as usize), key: k.clone(), random: *r },
    }
}

pub fn act_from_real(a: &SysAction) -> RAct {
    match a {
        ActorModelAction::Deliver { src, dst, msg } => RAct::Deliver(idu(*src), idu(*dst), *msg),
        ActorModelAction::Drop(e) => RAct::Drop(idu(e.src), idu(e.dst), e.msg),
        ActorModelAction::Timeout(i, t) => RAct::Timeout(idu(*i), *t),
        ActorModelAction::Crash(i) => RAct::Crash(idu(*i)),
        ActorModelAction::SelectRandom { actor, key, random } => RAct::Select(idu(*actor), key.clone(), *random),
    }
}

pub fn build_sys(cfg: &SysCfg, actors: Vec<Tab>, init_net: &RNet) -> Sys {
    ActorModel::new(cfg.hist, Vec::new())
        .actors(actors)
        .init_network(net_to_real(init_net))
        .lossy_network(if cfg.lossy { LossyNetwork::Yes } else { LossyNetwork::No })
        .max_crashes(cfg.max_crashes)
        .record_msg_in(rec_in)
        .record_msg_out(rec_out)
}

/// The same system with the builder calls in another order (`order` 1: every option before the actors; 2: options
/// between the actors, which are added one by one with `.actor()`). A builder describes one model whatever the order.
pub fn build_sys_order(cfg: &SysCfg, actors: Vec<Tab>, init_net: &RNet, order: u8) -> Sys {
    let lossy = if cfg.lossy { LossyNetwork::Yes } else { LossyNetwork::No };
    match order {
        1 => ActorModel::new(cfg.hist, Vec::new())
            .max_crashes(cfg.max_crashes)
            .lossy_network(lossy)
            .record_msg_out(rec_out)
            .record_msg_in(rec_in)
            .init_network(net_to_real(init_net))
            .actors(actors),
        _ => {
            let mut m = ActorModel::new(cfg.hist, Vec::new());
            let n = actors.len();
            for (i, a) in actors.into_iter().enumerate() {
                m = m.actor(a);
                if i == 0 {
                    m = m.max_crashes(cfg.max_crashes).init_network(net_to_real(init_net));
                }
                if i + 1 == n {
                    m = m.lossy_network(lossy);
                }
            }
            m.record_msg_in(rec_in).record_msg_out(rec_out)
        }
    }
}

// ------------------------------------------------------------------------------------------------
// xplore: breadth-first search over any Model, de-duplicating on a caller-supplied canonical key
// ------------------------------------------------------------------------------------------------

pub struct XGraph<S, A, K> {
    pub states: Vec<S>,
    pub keys: Vec<K>,
    pub index: BTreeMap<K, usize>,
    /// per state: (action, successor index or None if ignored / outside boundary)
    pub edges: Vec<Vec<(A, Option<usize>)>>,
    pub depth: Vec<usize>,
    pub transitions: u64,
    pub capped: bool,
}

pub fn xplore<M, K>(m: &M, key: impl Fn(&M::State) -> K, max_states: usize, max_depth: usize) -> XGraph<M::State, M::Action, K>
where
    M: Model,
    M::State: Clone,
    M::Action: Clone,
    K: Ord + Clone,
{
    let mut g = XGraph { states: vec![], keys: vec![], index: BTreeMap::new(), edges: vec![], depth: vec![], transitions: 0, capped: false };
    let mut q = VecDeque::new();
    for s in m.init_states() {
        if !m.within_boundary(&s) {
            continue;
        }
        let k = key(&s);
        if !g.index.contains_key(&k) {
            g.index.insert(k.clone(), g.states.len());
            g.states.push(s);
            g.keys.push(k);
            g.edges.push(vec![]);
            g.depth.push(0);
            q.push_back(g.states.len() - 1);
        }
    }
    while let Some(i) = q.pop_front() {
        if g.depth[i] >= max_depth {
            g.capped = true;
            continue;
        }
        let s = g.states[i].clone();
        let mut acts = Vec::new();
        m.actions(&s, &mut acts);
        for a in acts {
            g.transitions += 1;
            let nx = m.next_state(&s, a.clone());
            let tgt = match nx {
                None => None,
                Some(ns) => {
                    if !m.within_boundary(&ns) {
                        None
                    } else {
                        let k = key(&ns);
                        match g.index.get(&k) {
                            Some(j) => Some(*j),
                            None => {
                                if g.states.len() >= max_states {
                                    g.capped = true;
                                    None
                                } else {
                                    let j = g.states.len();
                                    g.index.insert(k.clone(), j);
                                    g.states.push(ns);
                                    g.keys.push(k);
                                    g.edges.push(vec![]);
                                    g.depth.push(g.depth[i] + 1);
                                    q.push_back(j);
                                    Some(j)
                                }
                            }
                        }
                    }
                }
            };
            g.edges[i].push((a, tgt));
        }
    }
    g
}

// ------------------------------------------------------------------------------------------------
// Menus
// ------------------------------------------------------------------------------------------------

/// The 16-command alphabet of DESIGN §4 C06.
pub fn cmd_alphabet() -> Vec<Cmd> {
    let mut v = Vec::new();
    for d in [0u8, 1, 9] {
        for m in [0u8, 1] {
            v.push(Cmd::Send(d, m));
        }
    }
    for t in [0u8, 1] {
        v.push(Cmd::SetTimer(t));
    }
    for t in [0u8, 1] {
        v.push(Cmd::CancelTimer(t));
    }
    for k in ["x", "y"] {
        v.push(Cmd::Choose(k.into(), vec![0]));
        v.push(Cmd::Choose(k.into(), vec![0, 1]));
    }
    for k in ["x", "y"] {
        v.push(Cmd::Choose(k.into(), vec![]));
    }
    v
}

/// All command lists of length <= max_len.
pub fn cmd_lists(max_len: usize) -> Vec<Vec<Cmd>> {
    let al = cmd_alphabet();
    let mut out: Vec<Vec<Cmd>> = vec![vec![]];
    let mut layer: Vec<Vec<Cmd>> = vec![vec![]];
    for _ in 0..max_len {
        let mut next = Vec::new();
        for l in &layer {
            for c in &al {
                let mut l2 = l.clone();
                l2.push(c.clone());
                next.push(l2);
            }
        }
        out.extend(next.iter().cloned());
        layer = next;
    }
    out
}

/// All outputs: {Keep, Touch, Set(new)} x command lists.
pub fn output_menu(max_len: usize, new_value: u8) -> Vec<Output> {
    let mut v = Vec::new();
    for l in cmd_lists(max_len) {
        for st in [StOp::Keep, StOp::Touch, StOp::Set(new_value)] {
            v.push(Output { st, cmds: l.clone() });
        }
    }
    v
}
