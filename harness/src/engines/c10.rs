//! C10 — symmetry reduction: rewrite plans, Rewrite impls, representatives, verdict preservation.

use crate::report::*;
use crate::Args;
use serde_json::json;
use stateright::actor::*;
use stateright::util::*;
use stateright::*;
use std::borrow::Cow;
use std::collections::{BTreeMap, BTreeSet, VecDeque};
use std::sync::{Arc, Mutex};

fn id(i: usize) -> Id {
    Id::from(i)
}
fn ix(i: Id) -> usize {
    usize::from(i)
}

/// independent stable argsort: pi[i] = position of element i after a stable sort
fn stable_rank<T: Ord>(v: &[T]) -> Vec<usize> {
    let mut idx: Vec<usize> = (0..v.len()).collect();
    // insertion sort on (value, original index): trivially stable
    for i in 1..idx.len() {
        let mut j = i;
        while j > 0 && (v[idx[j - 1]] > v[idx[j]]) {
            idx.swap(j - 1, j);
            j -= 1;
        }
    }
    let mut pi = vec![0; v.len()];
    for (pos, i) in idx.iter().enumerate() {
        pi[*i] = pos;
    }
    pi
}

fn all_vectors(max_len: usize, base: u32) -> Vec<Vec<u8>> {
    let mut out = Vec::new();
    for len in 0..=max_len {
        for code in 0..base.pow(len as u32) {
            out.push((0..len).map(|i| (code / base.pow(i as u32) % base) as u8).collect());
        }
    }
    out
}

fn part_a(shared: &SharedReport, max_len: usize) {
    for v in all_vectors(max_len, 3) {
        let plan = RewritePlan::<Id, _>::from_values_to_sort(&v);
        let pi = stable_rank(&v);
        let mut sorted = v.clone();
        sorted.sort();
        let mut r = shared.lock().unwrap();
        r.evaluations += 1;
        r.states += 1;
        r.transitions += v.len() as u64 + 1;
        r.traces += 1;
        if v.len() >= 2 {
            r.nontrivial += 1;
        }
        let rv = json!({"engine": "c10a", "vector": v});
        let got = plan.reindex(&v);
        if got != sorted {
            r.violation("c10:plan-reindex-not-sorted", format!("reindex({:?}) = {:?}, stably sorted is {:?}", v, got, sorted), rv.clone());
        }
        for i in 0..v.len() {
            let p = ix(plan.rewrite(&id(i)));
            if p != pi[i] {
                r.violation("c10:plan-not-stable-sort-permutation", format!("vector {:?}: plan maps {i} to {p}, the stable sorting permutation maps it to {}", v, pi[i]), rv.clone());
            }
        }
        // tagged vector: reindex(x)[plan.rewrite(i)] == x[i]
        let tagged: Vec<usize> = (0..v.len()).map(|i| 100 + i).collect();
        let rt = plan.reindex(&tagged);
        for i in 0..v.len() {
            let p = ix(plan.rewrite(&id(i)));
            if p >= rt.len() || rt[p] != tagged[i] {
                r.violation("c10:plan-reindex-rewrite-inconsistent", format!("vector {:?}: reindex moves element {i} to a different place than rewrite({i})={p}: {:?}", v, rt), rv.clone());
            }
        }
        r.outcome(format!("plan:{:?}", pi));
    }
}

fn perms3() -> Vec<Vec<usize>> {
    vec![vec![0, 1, 2], vec![0, 2, 1], vec![1, 0, 2], vec![1, 2, 0], vec![2, 0, 1], vec![2, 1, 0]]
}

/// plan whose permutation is exactly `pi` (pi[i] = new index of i): sort values = pi itself
fn plan_of(pi: &[usize]) -> RewritePlan<Id, DenseNatMap<Id, Id>> {
    RewritePlan::<Id, _>::from_values_to_sort(&pi.to_vec())
}

fn part_b(shared: &SharedReport) {
    let ids3: Vec<Vec<Id>> = all_vectors(3, 3).into_iter().map(|v| v.into_iter().map(|x| id(x as usize)).collect()).collect();
    for pi in perms3() {
        let plan = plan_of(&pi);
        let p = |x: Id| id(pi[ix(x)]);
        let mut bad: Vec<(String, String)> = Vec::new();
        let mut n = 0u64;
        for v in &ids3 {
            n += 1;
            let want: Vec<Id> = v.iter().map(|x| p(*x)).collect();
            if v.rewrite(&plan) != want {
                bad.push(("vec".into(), format!("{:?} -> {:?}, want {:?}", v, v.rewrite(&plan), want)));
            }
            let vd: VecDeque<Id> = v.iter().copied().collect();
            if vd.rewrite(&plan) != want.iter().copied().collect::<VecDeque<_>>() {
                bad.push(("vecdeque".into(), format!("{:?}", v)));
            }
            let bs: BTreeSet<Id> = v.iter().copied().collect();
            if bs.rewrite(&plan) != want.iter().copied().collect::<BTreeSet<_>>() {
                bad.push(("btreeset".into(), format!("{:?}", v)));
            }
            let hs: HashableHashSet<Id> = v.iter().copied().collect();
            if hs.rewrite(&plan) != want.iter().copied().collect::<HashableHashSet<_>>() {
                bad.push(("hashset".into(), format!("{:?}", v)));
            }
            // maps: key i -> v[i]
            let bm: BTreeMap<Id, Id> = v.iter().enumerate().map(|(i, x)| (id(i), *x)).collect();
            let want_m: BTreeMap<Id, Id> = v.iter().enumerate().map(|(i, x)| (p(id(i)), p(*x))).collect();
            if bm.rewrite(&plan) != want_m {
                bad.push(("btreemap".into(), format!("{:?}", v)));
            }
            let hm: HashableHashMap<Id, Id> = bm.iter().map(|(k, x)| (*k, *x)).collect();
            if hm.rewrite(&plan) != want_m.iter().map(|(k, x)| (*k, *x)).collect::<HashableHashMap<_, _>>() {
                bad.push(("hashmap".into(), format!("{:?}", v)));
            }
            if v.len() == 3 {
                // dense map keyed by Id: value of key k moves to key pi(k)
                let dm: DenseNatMap<Id, Id> = v.clone().into();
                let got = dm.rewrite(&plan);
                for k in 0..3 {
                    if got.get(p(id(k))) != Some(&p(v[k])) {
                        bad.push(("densenatmap".into(), format!("{:?}: key {k}", v)));
                    }
                }
                let e = Envelope { src: v[0], dst: v[1], msg: v[2] };
                let we = Envelope { src: p(v[0]), dst: p(v[1]), msg: p(v[2]) };
                if e.rewrite(&plan) != we {
                    bad.push(("envelope".into(), format!("{:?}", e)));
                }
                for kind in 0..3 {
                    let envs = vec![e, Envelope { src: v[1], dst: v[0], msg: v[0] }, e];
                    let wenvs: Vec<Envelope<Id>> = envs.iter().map(|e| Envelope { src: p(e.src), dst: p(e.dst), msg: p(e.msg) }).collect();
                    let (a, b) = match kind {
                        0 => (Network::new_ordered(envs.clone()), Network::new_ordered(wenvs.clone())),
                        1 => (Network::new_unordered_nonduplicating(envs.clone()), Network::new_unordered_nonduplicating(wenvs.clone())),
                        _ => (Network::new_unordered_duplicating_with_last_msg(envs.clone(), Some(e)), Network::new_unordered_duplicating_with_last_msg(wenvs.clone(), Some(we))),
                    };
                    if a.rewrite(&plan) != b {
                        bad.push((format!("network{kind}"), format!("{:?} -> {:?} want {:?}", a, a.rewrite(&plan), b)));
                    }
                }
                let mut rc = RandomChoices::default();
                rc.insert("k".into(), v.clone());
                let mut wrc = RandomChoices::default();
                wrc.insert("k".to_string(), want.clone());
                if rc.rewrite(&plan).map != wrc.map {
                    bad.push(("randomchoices".into(), format!("{:?}", v)));
                }
            }
            if let Some(x) = v.first() {
                if Some(*x).rewrite(&plan) != Some(p(*x)) || None::<Id>.rewrite(&plan).is_some() {
                    bad.push(("option".into(), format!("{:?}", x)));
                }
                if *Arc::new(*x).rewrite(&plan) != p(*x) {
                    bad.push(("arc".into(), format!("{:?}", x)));
                }
                if (*x, 7u8).rewrite(&plan) != (p(*x), 7u8) {
                    bad.push(("tuple".into(), format!("{:?}", x)));
                }
            }
        }
        let mut r = shared.lock().unwrap();
        r.evaluations += n * 14;
        r.nontrivial += n * 14;
        r.states += n;
        r.transitions += n * 14;
        r.traces += n;
        for (k, w) in bad {
            r.violation(&format!("c10:rewrite-impl:{k}"), format!("permutation {:?}: {w}", pi), json!({"engine": "c10b", "perm": pi}));
        }
    }
}

// ---- (c) representative of actor-system states ---------------------------------------------------

#[derive(Clone)]
pub struct Peer {
    pub n: usize,
}
pub type PState = (u8, Vec<Id>);
pub type PMsg = (u8, Id);
impl Actor for Peer {
    type Msg = PMsg;
    type State = PState;
    type Timer = u8;
    type Random = Id;
    fn on_start(&self, me: Id, o: &mut Out<Self>) -> PState {
        for j in 0..self.n {
            if j != ix(me) {
                o.send(id(j), (0, me));
            }
        }
        (0, vec![])
    }
    fn on_msg(&self, me: Id, state: &mut Cow<PState>, src: Id, msg: PMsg, o: &mut Out<Self>) {
        match msg.0 {
            0 => {
                if !state.1.contains(&src) {
                    state.to_mut().1.push(src);
                    o.send(src, (1, me));
                }
            }
            _ => {
                if state.0 < 2 {
                    state.to_mut().0 += 1;
                }
            }
        }
    }
}

type PHist = Vec<(Id, Id)>;
type PSysState = ActorModelState<Peer, PHist>;

fn apply_perm(pi: &[usize], s: &PSysState) -> PSysState {
    let n = pi.len();
    let p = |x: Id| id(pi[ix(x)]);
    let pst = |st: &PState| (st.0, st.1.iter().map(|x| p(*x)).collect::<Vec<_>>());
    let mut actor_states: Vec<Option<Arc<PState>>> = vec![None; n];
    let mut timers: Vec<Option<Timers<u8>>> = vec![None; n];
    let mut choices: Vec<Option<RandomChoices<Id>>> = vec![None; n];
    let mut crashed = vec![false; n];
    for i in 0..n {
        actor_states[pi[i]] = Some(Arc::new(pst(&s.actor_states[i])));
        timers[pi[i]] = Some(s.timers_set[i].clone());
        let mut rc = RandomChoices::default();
        for (k, l) in s.random_choices[i].map.iter() {
            rc.insert(k.clone(), l.iter().map(|x| p(*x)).collect());
        }
        choices[pi[i]] = Some(rc);
        crashed[pi[i]] = s.crashed[i];
    }
    let penv = |e: &Envelope<PMsg>| Envelope { src: p(e.src), dst: p(e.dst), msg: (e.msg.0, p(e.msg.1)) };
    let network = match &s.network {
        Network::Ordered(m) => {
            let mut envs = Vec::new();
            for ((a, b), q) in m {
                for msg in q {
                    envs.push(penv(&Envelope { src: *a, dst: *b, msg: *msg }));
                }
            }
            Network::new_ordered(envs)
        }
        Network::UnorderedNonDuplicating(m) => {
            let mut envs = Vec::new();
            for (e, c) in m.iter() {
                for _ in 0..*c {
                    envs.push(penv(e));
                }
            }
            Network::new_unordered_nonduplicating(envs)
        }
        Network::UnorderedDuplicating(set, last) => Network::new_unordered_duplicating_with_last_msg(set.iter().map(penv).collect::<Vec<_>>(), last.as_ref().map(penv)),
    };
    ActorModelState {
        actor_states: actor_states.into_iter().map(|x| x.unwrap()).collect(),
        network,
        timers_set: timers.into_iter().map(|x| x.unwrap()).collect(),
        random_choices: choices.into_iter().map(|x| x.unwrap()).collect(),
        crashed,
        history: s.history.iter().map(|(a, b)| (p(*a), p(*b))).collect(),
    }
}

/// full component-wise comparison (the subject's == is itself under test elsewhere)
fn same_state(a: &PSysState, b: &PSysState) -> bool {
    a.actor_states == b.actor_states
        && a.network == b.network
        && a.timers_set == b.timers_set
        && a.crashed == b.crashed
        && a.history == b.history
        && a.random_choices.len() == b.random_choices.len()
        && a.random_choices.iter().zip(b.random_choices.iter()).all(|(x, y)| x.map == y.map)
}

fn part_c(a: &Args, shared: &SharedReport, th: bool) {
    // (states that point at each other, so that rewriting the ids inside them changes their relative order)
    let locals: Vec<PState> = vec![(0, vec![]), (0, vec![id(1)]), (1, vec![id(0), id(2)]), (0, vec![id(0)]), (0, vec![id(2)])];
    let nl = locals.len();
    let envs = [Envelope { src: id(0), dst: id(1), msg: (0u8, id(2)) }, Envelope { src: id(2), dst: id(0), msg: (1u8, id(1)) }];
    let mut idx = 0u64;
    for code in 0..nl.pow(3) {
        let sts: Vec<PState> = (0..3).map(|i| locals[code / nl.pow(i as u32) % nl].clone()).collect();
        if !th && code >= 27 && code % 2 == 1 {
            continue;
        }
        for netsub in 0..4usize {
            for kind in 0..3 {
                idx += 1;
                if idx % a.nshards != a.shard {
                    continue;
                }
                let chosen: Vec<Envelope<PMsg>> = (0..2).filter(|k| (netsub >> k) & 1 == 1).map(|k| envs[k]).collect();
                let network = match kind {
                    0 => Network::new_ordered(chosen.clone()),
                    1 => Network::new_unordered_nonduplicating(chosen.iter().chain(chosen.iter()).cloned().collect::<Vec<_>>()),
                    _ => Network::new_unordered_duplicating_with_last_msg(chosen.clone(), chosen.first().cloned()),
                };
                let tmax = if th { 8 } else { 4 };
                for tsub in 0..tmax {
                    for csub in 0..8usize {
                        for rsub in 0..3usize {
                            for hsub in 0..2 {
                                let timers_set: Vec<Timers<u8>> = (0..3)
                                    .map(|i| {
                                        let mut t = Timers::new();
                                        if (tsub >> i) & 1 == 1 {
                                            t.set(i as u8 % 2);
                                        }
                                        t
                                    })
                                    .collect();
                                let random_choices: Vec<RandomChoices<Id>> = (0..3)
                                    .map(|i| {
                                        let mut rc = RandomChoices::default();
                                        if rsub == 1 && i == 0 || rsub == 2 && i != 1 {
                                            rc.insert("k".into(), vec![id(0), id(2)]);
                                        }
                                        rc
                                    })
                                    .collect();
                                let s = PSysState {
                                    actor_states: sts.iter().map(|x| Arc::new(x.clone())).collect(),
                                    network: network.clone(),
                                    timers_set,
                                    random_choices,
                                    crashed: (0..3).map(|i| (csub >> i) & 1 == 1).collect(),
                                    history: if hsub == 0 { vec![] } else { vec![(id(0), id(1)), (id(2), id(2))] },
                                };
                                let pi = stable_rank(&sts);
                                let want = apply_perm(&pi, &s);
                                let got = s.representative();
                                let mut r = shared.lock().unwrap();
                                r.evaluations += 1;
                                r.states += 1;
                                r.transitions += 1;
                                r.traces += 1;
                                if pi != vec![0, 1, 2] {
                                    r.nontrivial += 1;
                                }
                                if r.evaluations % 4099 == 0 {
                                    r.outcome(format!("rep:{:?}:{kind}", pi));
                                }
                                if !same_state(&got, &want) {
                                    let in_orbit = perms3().iter().any(|q| same_state(&apply_perm(q, &s), &got));
                                    r.violation(
                                        if in_orbit { "c10:representative-not-stable-sort-image" } else { "c10:representative-outside-orbit" },
                                        format!("representative() of {:?} is {:?}; applying the stable sorting permutation {:?} consistently gives {:?} (in orbit: {in_orbit})", s, got, pi, want),
                                        json!({"engine": "c10c", "actor_states": format!("{:?}", sts), "kind": kind, "netsub": netsub, "tsub": tsub, "csub": csub, "rsub": rsub, "hsub": hsub}),
                                    );
                                }
                                r.sample(30_011, || json!({"state": format!("{:?}", s), "stable_sort_permutation": pi, "representative": format!("{:?}", got)}));
                            }
                        }
                    }
                }
            }
        }
    }
}

// ---- (d) verdict preservation on process-symmetric models ----------------------------------------

#[derive(Clone, Debug)]
pub struct ProcModel {
    pub k: usize,
    /// rel[s][t]: a process may move from local state s to t
    pub rel: [[bool; 3]; 3],
    /// entering local state 2 requires the shared flag to be clear and sets it; leaving clears it
    pub flag: bool,
    pub props: Vec<(Expectation, u8)>,
    /// initial local-state vectors (not necessarily sorted: an initial state need not be its own representative)
    pub inits: Vec<Vec<u8>>,
}
pub type PMState = (Vec<u8>, bool);

fn pm_cond(kind: u8, s: &PMState, k: usize) -> bool {
    let c = |v: u8| s.0.iter().filter(|x| **x == v).count();
    match kind {
        0 => c(2) <= 1,         // mutual exclusion
        1 => c(2) == k,         // everybody in 2
        2 => c(1) == k,         // everybody in 1
        3 => c(1) < 2,          // at most one in 1
        4 => c(0) == 0,         // nobody left in 0
        5 => !(c(1) >= 1 && c(2) >= 1),
        _ => true,
    }
}
fn pm_c0(m: &ProcModel, s: &PMState) -> bool {
    pm_cond(m.props[0].1, s, m.k)
}
fn pm_c1(m: &ProcModel, s: &PMState) -> bool {
    pm_cond(m.props[1].1, s, m.k)
}
fn pm_c2(m: &ProcModel, s: &PMState) -> bool {
    pm_cond(m.props[2].1, s, m.k)
}
fn pm_c3(m: &ProcModel, s: &PMState) -> bool {
    pm_cond(m.props[3].1, s, m.k)
}

impl Model for ProcModel {
    type State = PMState;
    type Action = (u8, u8);
    fn init_states(&self) -> Vec<PMState> {
        self.inits.iter().map(|v| (v.clone(), false)).collect()
    }
    fn actions(&self, s: &PMState, out: &mut Vec<(u8, u8)>) {
        for i in 0..self.k {
            for t in 0..3u8 {
                if self.rel[s.0[i] as usize][t as usize] {
                    if self.flag && t == 2 && s.0[i] != 2 && s.1 {
                        continue;
                    }
                    out.push((i as u8, t));
                }
            }
        }
    }
    fn next_state(&self, s: &PMState, a: (u8, u8)) -> Option<PMState> {
        let mut n = s.clone();
        let from = n.0[a.0 as usize];
        n.0[a.0 as usize] = a.1;
        if self.flag {
            if a.1 == 2 && from != 2 {
                n.1 = true;
            }
            if from == 2 && a.1 != 2 {
                n.1 = false;
            }
        }
        Some(n)
    }
    fn properties(&self) -> Vec<Property<Self>> {
        let names = ["q0", "q1", "q2", "q3"];
        let conds: [fn(&ProcModel, &PMState) -> bool; 4] = [pm_c0, pm_c1, pm_c2, pm_c3];
        self.props.iter().enumerate().map(|(i, (e, _))| Property { expectation: e.clone(), name: names[i], condition: conds[i] }).collect()
    }
}

fn pm_rep(s: &PMState) -> PMState {
    let mut v = s.0.clone();
    v.sort();
    (v, s.1)
}

fn part_d(a: &Args, shared: &SharedReport, th: bool) {
    let mut idx = 0u64;
    for k in if th { vec![2usize, 3] } else { vec![2usize, 3] } {
        for relcode in 0..512u32 {
            for flag in [false, true] {
                idx += 1;
                if idx % a.nshards != a.shard {
                    continue;
                }
                if !th && k == 3 && relcode % 2 != 0 {
                    continue;
                }
                let mut rel = [[false; 3]; 3];
                for s in 0..3 {
                    for t in 0..3 {
                        rel[s][t] = (relcode >> (s * 3 + t)) & 1 == 1;
                    }
                }
                let props = vec![(Expectation::Always, 0u8), (Expectation::Sometimes, 1), (Expectation::Always, 3), (Expectation::Sometimes, 4)];
                let props2 = vec![(Expectation::Sometimes, 2u8), (Expectation::Always, 5), (Expectation::Always, 6)];
                let init_sets: Vec<Vec<Vec<u8>>> = if k == 2 {
                    vec![vec![vec![0, 0]], vec![vec![1, 0]], vec![vec![2, 1]], vec![vec![1, 0], vec![0, 2]]]
                } else {
                    vec![vec![vec![0, 0, 0]], vec![vec![1, 0, 0]], vec![vec![2, 0, 1]], vec![vec![0, 1, 0], vec![1, 1, 0]]]
                };
                for (pr, inits) in [props, props2].into_iter().flat_map(|p| init_sets.iter().map(move |i| (p.clone(), i.clone()))) {
                    if !th && k == 3 && inits[0] != vec![0, 0, 0] && relcode % 8 != 2 {
                        continue;
                    }
                    let m = ProcModel { k, rel, flag, props: pr, inits };
                    // oracle: reachable set and orbits by plain search
                    let mut seen: BTreeSet<PMState> = BTreeSet::new();
                    let mut stack = m.init_states();
                    while let Some(s) = stack.pop() {
                        if !seen.insert(s.clone()) {
                            continue;
                        }
                        let mut acts = Vec::new();
                        m.actions(&s, &mut acts);
                        for act in acts {
                            if let Some(nx) = m.next_state(&s, act) {
                                stack.push(nx);
                            }
                        }
                    }
                    let orbits: BTreeSet<PMState> = seen.iter().map(pm_rep).collect();
                    let verdict = |found: &dyn Fn(usize) -> bool| -> Vec<bool> { (0..m.props.len()).map(|i| found(i)).collect() };
                    let want = verdict(&|i| {
                        let (e, kind) = &m.props[i];
                        match e {
                            Expectation::Always => seen.iter().any(|s| !pm_cond(*kind, s, k)),
                            _ => seen.iter().any(|s| pm_cond(*kind, s, k)),
                        }
                    });
                    let names = ["q0", "q1", "q2", "q3"];
                    let run = |sym: bool| {
                        let vis: Arc<Mutex<Vec<PMState>>> = Arc::new(Mutex::new(Vec::new()));
                        let v2 = Arc::clone(&vis);
                        let mut b = m.clone().checker().visitor(move |p: Path<PMState, (u8, u8)>| v2.lock().unwrap().push(p.last_state().clone()));
                        if sym {
                            b = b.symmetry_fn(pm_rep);
                        }
                        // a path that cannot be rebuilt panics - in the worker that builds the visitor's path (then join()
                        // panics) or inside discoveries(): that is a verdict, not a harness crash
                        let res = std::panic::catch_unwind(std::panic::AssertUnwindSafe(move || {
                            let c = b.spawn_dfs().join();
                            let d = c.discoveries();
                            (c.unique_state_count(), d)
                        }));
                        let visited = vis.lock().unwrap().clone();
                        match res {
                            Ok((u, d)) => (u, Ok(d), visited),
                            Err(e) => (0, Err(e), visited),
                        }
                    };
                    let rv = json!({"engine": "c10d", "k": k, "rel": relcode, "flag": flag, "props": format!("{:?}", m.props), "inits": m.inits});
                    begin_case(shared, "c10d", rv.clone(), "machinery:hang");
                    let (u_plain, d_plain, _) = run(false);
                    let (u_sym, d_sym, vis_sym) = run(true);
                    end_case(shared);
                    let (d_plain, d_sym) = match (d_plain, d_sym) {
                        (Ok(a), Ok(b)) => (a, b),
                        (a, b) => {
                            let mut r = shared.lock().unwrap();
                            r.violation("c10:symmetry-path-not-real", format!("discoveries() panicked while rebuilding a reported path (plain dfs ok: {}, dfs with symmetry ok: {}) on {:?}", a.is_ok(), b.is_ok(), m), rv.clone());
                            continue;
                        }
                    };
                    let got_plain = verdict(&|i| d_plain.contains_key(names[i]));
                    let got_sym = verdict(&|i| d_sym.contains_key(names[i]));
                    let mut r = shared.lock().unwrap();
                    r.evaluations += 2;
                    r.traces += 2;
                    r.states += seen.len() as u64;
                    r.transitions += (u_plain + u_sym) as u64;
                    if orbits.len() < seen.len() {
                        r.nontrivial += 2;
                    }
                    r.outcome(format!("pm:{}:{}:{}", seen.len(), orbits.len(), u_sym));
                    // a run may stop early once every property has a discovery; only then may counts be smaller
                    let all_found = got_sym.iter().all(|x| *x);
                    if got_plain != want {
                        r.violation("c10:plain-dfs-verdicts", format!("plain dfs verdicts {:?}, oracle {:?} on {:?}", got_plain, want, m), rv.clone());
                    }
                    if got_sym != want {
                        r.violation("c10:symmetry-changes-verdicts", format!("dfs with symmetry reports discoveries {:?}, without {:?}, oracle {:?} on {:?}", got_sym, got_plain, want, m), rv.clone());
                    }
                    if !all_found {
                        if u_sym < orbits.len() {
                            r.violation("c10:symmetry-skips-an-orbit", format!("unique_state_count with symmetry = {u_sym} < number of symmetry classes {} on {:?}", orbits.len(), m), rv.clone());
                        }
                        let vis_orbits: BTreeSet<PMState> = vis_sym.iter().map(pm_rep).collect();
                        if vis_orbits != orbits {
                            r.violation("c10:symmetry-orbit-not-evaluated", format!("dfs with symmetry evaluated states of {} symmetry classes, {} are reachable, on {:?}", vis_orbits.len(), orbits.len(), m), rv.clone());
                        }
                    }
                    if u_sym > seen.len() || (!got_plain.iter().all(|x| *x) && u_sym > u_plain) {
                        r.violation("c10:symmetry-more-states", format!("unique_state_count with symmetry = {u_sym} > without = {u_plain} on {:?}", m), rv.clone());
                    }
                    // simulation under the same reduction: its reported paths must be real executions too
                    let mut sim_discs = Vec::new();
                    if relcode % 4 == 0 && seen.len() >= 2 {
                        drop(r);
                        for seed in 0..(if th { 4u64 } else { 2u64 }) {
                            let c = m.clone().checker().symmetry_fn(pm_rep).target_state_count(40).spawn_simulation(seed, UniformChooser).join();
                            match std::panic::catch_unwind(std::panic::AssertUnwindSafe(|| c.discoveries())) {
                                Ok(d) => sim_discs.push(d),
                                Err(_) => {
                                    let mut r = shared.lock().unwrap();
                                    r.violation("c10:symmetry-path-not-real", format!("simulation with symmetry (seed {seed}): discoveries() panicked while rebuilding a reported path, on {:?}", m), rv.clone());
                                }
                            }
                        }
                        r = shared.lock().unwrap();
                        r.evaluations += sim_discs.len() as u64;
                        r.traces += sim_discs.len() as u64;
                    }
                    // reported paths are real executions of the original model
                    for (name, path) in d_sym.iter().chain(sim_discs.iter().flat_map(|d| d.iter())) {
                        let i = names.iter().position(|n| n == name).unwrap();
                        let v = path.clone().into_vec();
                        let mut ok = m.init_states().contains(&v[0].0);
                        for w in 0..v.len().saturating_sub(1) {
                            let mut acts = Vec::new();
                            m.actions(&v[w].0, &mut acts);
                            match v[w].1 {
                                Some(act) if acts.contains(&act) && m.next_state(&v[w].0, act).as_ref() == Some(&v[w + 1].0) => {}
                                _ => ok = false,
                            }
                        }
                        let last = &v[v.len() - 1].0;
                        let (e, kind) = &m.props[i];
                        let witness = match e {
                            Expectation::Always => !pm_cond(*kind, last, k),
                            _ => pm_cond(*kind, last, k),
                        };
                        if !ok || !witness {
                            r.violation("c10:symmetry-path-not-real", format!("discovery for {name} under symmetry is not a real execution ending in a witness: {:?} on {:?}", v, m), rv.clone());
                        }
                    }
                    r.sample(101, || json!({"model": format!("{:?}", m), "reachable": seen.len(), "orbits": orbits.len(), "unique_plain": u_plain, "unique_sym": u_sym}));
                }
            }
        }
    }
}

// ---- (d') actor systems with .symmetry() ----------------------------------------------------------

fn orbit_key(s: &PSysState, n: usize) -> String {
    let perms: Vec<Vec<usize>> = if n == 3 { perms3() } else { vec![vec![0, 1], vec![1, 0]] };
    perms
        .iter()
        .map(|q| {
            let t = apply_perm(q, s);
            let mut net: Vec<String> = match &t.network {
                Network::Ordered(m) => m.iter().map(|(k, q)| format!("{:?}{:?}", k, q)).collect(),
                Network::UnorderedNonDuplicating(m) => m.iter().map(|(e, c)| format!("{:?}x{c}", e)).collect(),
                Network::UnorderedDuplicating(set, last) => {
                    let mut v: Vec<String> = set.iter().map(|e| format!("{:?}", e)).collect();
                    v.push(format!("last{:?}", last));
                    v
                }
            };
            net.sort();
            format!("{:?}|{:?}|{:?}", t.actor_states, net, t.crashed)
        })
        .min()
        .unwrap()
}

fn part_d_actors(a: &Args, shared: &SharedReport, th: bool) {
    actors_under_symmetry(a, shared, th, 0, "c10");
}

/// Peer systems with a crash budget, with and without `.symmetry()`: every symmetry class of crashed
/// configurations that the plain search reaches must be evaluated by the reduced one (C09: each combination of
/// crashed actors is a distinct state that the checker explores - also when states are identified up to symmetry).
pub fn crashes_under_symmetry(a: &Args, shared: &SharedReport, th: bool) {
    actors_under_symmetry(a, shared, th, 1, "e3:c09-sym");
    if th {
        actors_under_symmetry(a, shared, th, 2, "e3:c09-sym");
    }
}

fn actors_under_symmetry(a: &Args, shared: &SharedReport, th: bool, crashes: usize, prefix: &str) {
    let mut idx = 0u64;
    for n in if th { vec![2usize, 3] } else { vec![2usize, 3] } {
        for kind in 0..3 {
            for lossy in [false, true] {
                idx += 1;
                if idx % a.nshards != a.shard {
                    continue;
                }
                if n == 3 && (lossy || (kind == 0 && !th)) {
                    continue;
                }
                if crashes > 0 && n == 3 && (kind != 1 || !th) {
                    continue;
                }
                let build = || {
                    let net: Network<PMsg> = match kind {
                        0 => Network::new_ordered([]),
                        1 => Network::new_unordered_nonduplicating([]),
                        _ => Network::new_unordered_duplicating([]),
                    };
                    ActorModel::<Peer, (), PHist>::new((), vec![])
                        .actors((0..n).map(|_| Peer { n }))
                        .init_network(net)
                        .lossy_network(if lossy { LossyNetwork::Yes } else { LossyNetwork::No })
                        .max_crashes(crashes)
                        .property(Expectation::Always, "count bounded", |_, s| s.actor_states.iter().all(|x| x.0 <= 2))
                        .property(Expectation::Sometimes, "someone fully acked", |m, s| s.actor_states.iter().any(|x| x.1.len() == m.actors.len() - 1))
                        .property(Expectation::Always, "nobody counts 2", |_, s| s.actor_states.iter().all(|x| x.0 < 2))
                        .property(Expectation::Sometimes, "never", |_, _| false)
                };
                let rv = json!({"engine": "c10actors", "n": n, "kind": kind, "lossy": lossy, "max_crashes": crashes});
                begin_case(shared, "c10 actors", rv.clone(), "machinery:hang-long");
                let run = |sym: bool| {
                    let vis: Arc<Mutex<BTreeSet<String>>> = Arc::new(Mutex::new(BTreeSet::new()));
                    let v2 = Arc::clone(&vis);
                    let mut b = build().checker().visitor(move |p: Path<PSysState, ActorModelAction<PMsg, u8, Id>>| {
                        v2.lock().unwrap().insert(orbit_key(p.last_state(), n));
                    });
                    if sym {
                        b = b.symmetry();
                    }
                    let res = std::panic::catch_unwind(std::panic::AssertUnwindSafe(move || {
                        let c = b.spawn_dfs().join();
                        let names: BTreeSet<String> = c.discoveries().keys().map(|k| k.to_string()).collect();
                        (c.unique_state_count(), names)
                    }));
                    let o = vis.lock().unwrap().clone();
                    res.map(|(u, names)| (u, names, o)).map_err(|_| ())
                };
                let (rp, rs) = (run(false), run(true));
                end_case(shared);
                let ((u_plain, d_plain, orbits_plain), (u_sym, d_sym, orbits_sym)) = match (rp, rs) {
                    (Ok(a), Ok(b)) => (a, b),
                    (a, b) => {
                        let mut r = shared.lock().unwrap();
                        r.violation(&format!("{prefix}:actor-symmetry-path-not-real"), format!("max_crashes={crashes} n={n} kind={kind}: join() or discoveries() panicked while a reported path was rebuilt (plain dfs ok: {}, with symmetry ok: {})", a.is_ok(), b.is_ok()), rv.clone());
                        continue;
                    }
                };
                let mut r = shared.lock().unwrap();
                r.evaluations += 2;
                r.traces += 2;
                r.nontrivial += 2;
                r.states += u_plain as u64;
                r.transitions += (u_plain + u_sym) as u64;
                r.outcome(format!("actors:{n}:{kind}:{lossy}:{crashes}:{u_plain}:{u_sym}"));
                if crashes > 0 {
                    let crashed_classes = orbits_plain.iter().filter(|k| k.contains("true")).count();
                    r.count("symmetry_classes_with_a_crashed_actor", crashed_classes as u64);
                }
                if d_plain != d_sym {
                    r.violation(&format!("{prefix}:actor-symmetry-changes-verdicts"), format!("max_crashes={crashes} n={n} kind={kind} lossy={lossy}: discoveries without symmetry {:?}, with {:?}", d_plain, d_sym), rv.clone());
                }
                if u_sym > u_plain {
                    r.violation(&format!("{prefix}:actor-symmetry-more-states"), format!("max_crashes={crashes} n={n} kind={kind}: unique with symmetry {u_sym} > without {u_plain}"), rv.clone());
                }
                if u_sym < orbits_plain.len() {
                    r.violation(&format!("{prefix}:actor-symmetry-skips-an-orbit"), format!("max_crashes={crashes} n={n} kind={kind}: unique with symmetry {u_sym} < symmetry classes {}", orbits_plain.len()), rv.clone());
                }
                if orbits_sym != orbits_plain {
                    r.violation(&format!("{prefix}:actor-symmetry-orbit-not-evaluated"), format!("max_crashes={crashes} n={n} kind={kind}: classes evaluated with symmetry {} vs {} reachable", orbits_sym.len(), orbits_plain.len()), rv.clone());
                }
                r.sample(1, || json!({"actors": n, "network_kind": kind, "lossy": lossy, "unique_plain": u_plain, "unique_sym": u_sym, "symmetry_classes": orbits_plain.len()}));
            }
        }
    }
}

pub fn run_c10(a: &Args, shared: &SharedReport) {
    let th = a.tier == "thorough";
    {
        let mut r = shared.lock().unwrap();
        r.rule = "(a) every vector over {0,1,2} up to the length bound; (b) every provided Rewrite impl on all id vectors of length <=3 x all 6 plans; (c) representative() on every constructed 3-actor state vs the harness's application of the stable sorting permutation; (d) every process-symmetric model (all 512 local relations x shared flag x 2-3 processes): dfs with and without symmetry vs a plain-search oracle; peer actor systems with .symmetry(); non-trivial = the permutation is not the identity / the model has fewer orbits than states".into();
        r.bounds = json!({"vectors": if th {"length <=8"} else {"length <=7"}, "plans": "all 6 permutations of 3 ids", "representative_states": "27 actor-state triples (ties) x 4 network contents x 3 kinds x timers x crash flags x random choices x history", "process_models": "512 relations x flag x k in {2,3} (quick: k=3 every 2nd relation)", "actor_systems": "2-3 broadcasting peers, 3 network kinds"});
    }
    if a.shard == 0 {
        part_a(shared, if th { 8 } else { 7 });
        part_b(shared);
    }
    part_c(a, shared, th);
    part_d(a, shared, th);
    part_d_actors(a, shared, th);
}
