//! C12 parts that are not graph sweeps: (i) the HasDiscoveries truth table, (v) seed replay.

use crate::gm::*;
use crate::report::*;
use crate::run::*;
use crate::Args;
use rand::rngs::StdRng;
use rand::{Rng, SeedableRng};
use serde_json::json;
use stateright::*;
use std::collections::BTreeSet;
use std::sync::{Arc, Mutex};

/// (i) every variant x every property-kind assignment x every discovered subset.
pub fn truth_table(shared: &SharedReport) {
    let exps = [Expectation::Always, Expectation::Sometimes, Expectation::Eventually];
    let mut variants: Vec<Finish> = vec![Finish::All, Finish::Any, Finish::AnyFailures, Finish::AllFailures];
    for sub in 0..8u8 {
        let names: Vec<u8> = (0..3u8).filter(|k| (sub >> k) & 1 == 1).collect();
        variants.push(Finish::AllOf(names.clone()));
        variants.push(Finish::AnyOf(names));
    }
    for k in 0..=3usize {
        for code in 0..3usize.pow(k as u32) {
            let props: Vec<(Expectation, u8)> = (0..k).map(|i| (exps[code / 3usize.pow(i as u32) % 3].clone(), 0u8)).collect();
            let m = GraphModel { succ: vec![vec![]], inits: vec![0], boundary: 1, props: props.clone(), panic_on: None, panic_thread: None };
            let real_props = m.properties();
            for dsub in 0..(1u8 << k) {
                let d: BTreeSet<u8> = (0..k as u8).filter(|i| (dsub >> i) & 1 == 1).collect();
                let dreal: BTreeSet<&'static str> = d.iter().map(|i| NAMES[*i as usize]).collect();
                for f in &variants {
                    let got = f.to_real().matches(&dreal, &real_props);
                    let want = f.holds(&d, &props);
                    let mut r = shared.lock().unwrap();
                    r.evaluations += 1;
                    r.nontrivial += 1;
                    r.states += 1;
                    r.transitions += 1;
                    r.traces += 1;
                    r.outcome(format!("tt:{:?}:{}", std::mem::discriminant(f), got));
                    if got != want {
                        r.violation(
                            "c12:has-discoveries-truth-table",
                            format!("{:?}.matches(discovered={:?}, properties={:?}) = {got}, the variant name means {want}", f, d, props.iter().map(|p| exp_name(&p.0)).collect::<Vec<_>>()),
                            json!({"engine": "c12tt", "finish": f, "discovered": d, "props": props}),
                        );
                    }
                }
            }
        }
    }
}

#[derive(Clone)]
pub struct SeedRec(pub Arc<Mutex<Vec<u64>>>);
impl Chooser<GraphModel> for SeedRec {
    type State = StdRng;
    fn new_state(&self, seed: u64) -> StdRng {
        self.0.lock().unwrap().push(seed);
        StdRng::seed_from_u64(seed ^ 0x5eed)
    }
    fn choose_initial_state(&self, st: &mut StdRng, inits: &[u8]) -> usize {
        st.gen_range(0..inits.len())
    }
    fn choose_action(&self, st: &mut StdRng, _s: &u8, actions: &[u8]) -> usize {
        st.gen_range(0..actions.len())
    }
}

fn first_trace(visited: &[PathV]) -> Vec<PathV> {
    let mut out = Vec::new();
    for (i, p) in visited.iter().enumerate() {
        if i > 0 && p.len() == 1 {
            break;
        }
        out.push(p.clone());
    }
    out
}

fn sim_once(m: &GraphModel, seed: u64, rec_chooser: bool) -> (Vec<PathV>, Vec<u64>) {
    let rec: Arc<Mutex<Vec<PathV>>> = Arc::new(Mutex::new(Vec::new()));
    let cfg = Config { target_states: Some(9), ..Config::plain(Strategy::SimUniform(seed)) };
    let b = builder(m, &cfg, &rec);
    let seeds = Arc::new(Mutex::new(Vec::new()));
    if rec_chooser {
        let _ = b.spawn_simulation(seed, SeedRec(Arc::clone(&seeds))).join();
    } else {
        let _ = b.spawn_simulation(seed, UniformChooser).join();
    }
    let v = std::mem::take(&mut *rec.lock().unwrap());
    let s = seeds.lock().unwrap().clone();
    (v, s)
}

/// (v) single-threaded simulation with a given seed and chooser replays the same first trace, and the
/// given seed is what the chooser is seeded with for that first trace.
pub fn seed_replay(a: &Args, shared: &SharedReport) {
    let th = a.tier == "thorough";
    let sp = crate::engines::e1::Space { ns: vec![3], ignored: th, dups: false, init_orders: false, single_init: false, boundaries: crate::engines::e1::b_full, max_edges: None };
    let nseeds = if th { 64 } else { 16 };
    let mut idx = 0u64;
    crate::engines::e1::for_each_core(&sp, a.shard, a.nshards, |core| {
        let orc = Oracle::new(&core);
        idx += 1;
        // branching matters here: at least two reachable states and a state with two successors
        let branching = (0..core.n() as u8).any(|s| orc.reach(s) && core.out_edges(s).len() >= 2) || core.inits.len() >= 2;
        if !branching || (!th && idx % 8 != 0) {
            return;
        }
        let m = GraphModel { props: vec![(Expectation::Always, 0xFF)], ..core };
        for seed in 0..nseeds {
            for rec_chooser in [false, true] {
                let rv = json!({"engine": "c12seed", "model": m, "seed": seed, "recording_chooser": rec_chooser});
                begin_case(shared, "seed replay", rv.clone(), "machinery:hang");
                let (v1, s1) = sim_once(&m, seed, rec_chooser);
                let (v2, _) = sim_once(&m, seed, rec_chooser);
                end_case(shared);
                let (t1, t2) = (first_trace(&v1), first_trace(&v2));
                let mut r = shared.lock().unwrap();
                r.evaluations += 1;
                r.nontrivial += 1;
                r.traces += 2;
                r.states += (v1.len() + v2.len()) as u64;
                r.transitions += (v1.len() + v2.len()) as u64;
                r.outcome(format!("seed:{}", t1.last().map(|p| p.len()).unwrap_or(0)));
                if t1 != t2 {
                    r.violation("c12:seed-first-trace-differs", format!("seed {seed}: first trace {:?} vs {:?} on {:?}", t1, t2, m), rv.clone());
                }
                if rec_chooser && s1.first() != Some(&seed) {
                    r.violation("c12:seed-not-passed-to-chooser", format!("seed {seed}: the chooser state for the first trace was created from {:?}", s1.first()), rv.clone());
                }
                r.sample(4001, || json!({"seed": seed, "model": m, "first_trace": t1}));
            }
        }
    });
}
