//! C15 — actor adapters are transparent: per-call enumeration over the output menu, and isomorphism
//! of the wrapped zoo systems' state graphs.

use crate::asys::*;
use crate::report::*;
use crate::zoo::*;
use crate::Args;
use choice::{Choice, Never};
use serde_json::json;
use stateright::actor::*;
use stateright::*;
use std::borrow::Cow;
use std::collections::BTreeSet;
use std::fmt::Debug;
use std::sync::{Arc, Mutex};

// ------------------------------------------------------------------------------------------------
// A scripted actor speaking RegisterMsg (for the Server adapters). Its script is a `Tab`: incoming
// Internal(m) is the Tab message m, outgoing Send(d, m) becomes Internal(m).
// ------------------------------------------------------------------------------------------------

macro_rules! rtab {
    ($name:ident, $msg:ty, $internal:path, $code:path) => {
        #[derive(Clone, Debug, Default)]
        pub struct $name(pub Tab);
        impl Actor for $name {
            type Msg = $msg;
            type State = u8;
            type Timer = u8;
            type Random = u8;
            fn on_start(&self, id: Id, o: &mut Out<Self>) -> u8 {
                let mut oi = Out::<Tab>::new();
                let s = self.0.on_start(id, &mut oi);
                relay(oi, o, $internal);
                s
            }
            fn on_msg(&self, id: Id, state: &mut Cow<u8>, src: Id, msg: Self::Msg, o: &mut Out<Self>) {
                // Internal(m) is the Tab message m; the register protocol's own messages are the Tab messages 201..205
                let m = $code(&msg);
                let mut oi = Out::<Tab>::new();
                self.0.on_msg(id, state, src, m, &mut oi);
                relay(oi, o, $internal);
            }
            fn on_timeout(&self, id: Id, state: &mut Cow<u8>, timer: &u8, o: &mut Out<Self>) {
                let mut oi = Out::<Tab>::new();
                self.0.on_timeout(id, state, timer, &mut oi);
                relay(oi, o, $internal);
            }
            fn on_random(&self, id: Id, state: &mut Cow<u8>, random: &u8, o: &mut Out<Self>) {
                let mut oi = Out::<Tab>::new();
                self.0.on_random(id, state, random, &mut oi);
                relay(oi, o, $internal);
            }
        }
    };
}

fn relay<A: Actor<Timer = u8, Random = u8>>(oi: Out<Tab>, o: &mut Out<A>, wrap: fn(u8) -> A::Msg) {
    for c in oi {
        match c {
            Command::Send(d, m) => o.send(d, wrap(m)),
            Command::SetTimer(t, r) => o.set_timer(t, r),
            Command::CancelTimer(t) => o.cancel_timer(t),
            Command::ChooseRandom(k, l) => {
                if l.is_empty() {
                    o.remove_random(k)
                } else {
                    o.choose_random(k, l)
                }
            }
        }
    }
}

type RMsg = register::RegisterMsg<u64, char, u8>;
type WMsg = write_once_register::WORegisterMsg<u64, char, u8>;
rtab!(RTab, RMsg, register::RegisterMsg::Internal, rcode);
rtab!(WTab, WMsg, write_once_register::WORegisterMsg::Internal, wcode);

fn rcode(m: &RMsg) -> u8 {
    match m {
        register::RegisterMsg::Internal(x) => *x,
        register::RegisterMsg::Put(..) => 201,
        register::RegisterMsg::Get(..) => 202,
        register::RegisterMsg::PutOk(..) => 203,
        register::RegisterMsg::GetOk(..) => 204,
    }
}
fn rmsg(code: u8) -> RMsg {
    match code {
        201 => register::RegisterMsg::Put(7, 'v'),
        202 => register::RegisterMsg::Get(7),
        203 => register::RegisterMsg::PutOk(7),
        204 => register::RegisterMsg::GetOk(7, 'v'),
        x => register::RegisterMsg::Internal(x),
    }
}
fn wcode(m: &WMsg) -> u8 {
    match m {
        write_once_register::WORegisterMsg::Internal(x) => *x,
        write_once_register::WORegisterMsg::Put(..) => 201,
        write_once_register::WORegisterMsg::Get(..) => 202,
        write_once_register::WORegisterMsg::PutOk(..) => 203,
        write_once_register::WORegisterMsg::GetOk(..) => 204,
        write_once_register::WORegisterMsg::PutFail(..) => 205,
    }
}
fn wmsg(code: u8) -> WMsg {
    match code {
        201 => write_once_register::WORegisterMsg::Put(7, 'v'),
        202 => write_once_register::WORegisterMsg::Get(7),
        203 => write_once_register::WORegisterMsg::PutOk(7),
        204 => write_once_register::WORegisterMsg::GetOk(7, 'v'),
        205 => write_once_register::WORegisterMsg::PutFail(7),
        x => write_once_register::WORegisterMsg::Internal(x),
    }
}

// ------------------------------------------------------------------------------------------------
// Per-call transparency
// ------------------------------------------------------------------------------------------------

/// What one handler invocation did, rendered for comparison.
#[derive(Debug, PartialEq, Clone)]
struct CallObs {
    out: String,
    owned: bool,
    state: u8,
    inner_calls: Vec<Call>,
}

/// Drives an adapter `W` around an inner actor built from a Tab. `mk` builds the adapter, `wrap_state`
/// / `unwrap_state` convert states, `msg` builds an adapter message from a Tab message, `norm` renders the
/// adapter's commands in the inner actor's vocabulary.
struct Adapter<W: Actor> {
    name: &'static str,
    mk: fn(Tab) -> W,
    wrap_state: fn(u8) -> W::State,
    unwrap_state: fn(&W::State) -> u8,
    msg: fn(u8) -> W::Msg,
    /// further incoming messages (Tab message values) beyond the plain one: the adapter's own protocol messages
    extra_msgs: &'static [u8],
    /// renders Out<W> like Out<Tab> would be rendered for the same commands
    norm: fn(&Out<W>) -> String,
}

fn direct(tab: &Tab, local: u8, ev: &Ev) -> CallObs {
    let log = Arc::new(Mutex::new(Vec::new()));
    let t = Tab { table: tab.table.clone(), log: Some(Arc::clone(&log)) };
    let mut o = Out::<Tab>::new();
    let me = Id::from(1usize);
    let (owned, state) = match ev {
        Ev::Start => (true, t.on_start(me, &mut o)),
        _ => {
            let mut c = Cow::Borrowed(&local);
            match ev {
                Ev::Msg(s, m) => t.on_msg(me, &mut c, Id::from(*s as usize), *m, &mut o),
                Ev::Timeout(x) => t.on_timeout(me, &mut c, x, &mut o),
                Ev::Random(x) => t.on_random(me, &mut c, x, &mut o),
                Ev::Start => unreachable!(),
            }
            (matches!(c, Cow::Owned(_)), *c)
        }
    };
    let calls = log.lock().unwrap().clone();
    CallObs { out: norm_u8(&o), owned, state, inner_calls: calls }
}

fn through<W: Actor<Timer = u8, Random = u8>>(ad: &Adapter<W>, tab: &Tab, local: u8, ev: &Ev) -> CallObs {
    let log = Arc::new(Mutex::new(Vec::new()));
    let t = Tab { table: tab.table.clone(), log: Some(Arc::clone(&log)) };
    let w = (ad.mk)(t);
    let mut o = Out::<W>::new();
    let me = Id::from(1usize);
    let (owned, state) = match ev {
        Ev::Start => {
            let s = w.on_start(me, &mut o);
            (true, (ad.unwrap_state)(&s))
        }
        _ => {
            let ws = (ad.wrap_state)(local);
            let mut c = Cow::Borrowed(&ws);
            match ev {
                Ev::Msg(s, m) => w.on_msg(me, &mut c, Id::from(*s as usize), (ad.msg)(*m), &mut o),
                Ev::Timeout(x) => w.on_timeout(me, &mut c, x, &mut o),
                Ev::Random(x) => w.on_random(me, &mut c, x, &mut o),
                Ev::Start => unreachable!(),
            }
            (matches!(c, Cow::Owned(_)), (ad.unwrap_state)(&c))
        }
    };
    let calls = log.lock().unwrap().clone();
    CallObs { out: (ad.norm)(&o), owned, state, inner_calls: calls }
}

fn per_call<W: Actor<Timer = u8, Random = u8>>(ad: &Adapter<W>, menu: &[Output], shared: &SharedReport) {
    let mut events = vec![Ev::Start, Ev::Msg(0, 1), Ev::Timeout(1), Ev::Random(1)];
    for m in ad.extra_msgs {
        events.push(Ev::Msg(2, *m));
    }
    for ev in &events {
        for out in menu {
            if *ev == Ev::Start && !matches!(out.st, StOp::Set(_)) {
                continue;
            }
            let local = 3u8;
            let key = if *ev == Ev::Start { (ANY, ev.clone()) } else { (local, ev.clone()) };
            let tab = Tab::new(vec![(key, out.clone())]);
            let want = direct(&tab, local, ev);
            let got = through(ad, &tab, local, ev);
            let mut r = shared.lock().unwrap();
            r.evaluations += 1;
            r.transitions += 1;
            r.traces += 1;
            r.states += 1;
            if !out.cmds.is_empty() || out.st != StOp::Keep {
                r.nontrivial += 1;
            }
            let evname = match ev {
                Ev::Start => "start",
                Ev::Msg(..) => "msg",
                Ev::Timeout(_) => "timeout",
                Ev::Random(_) => "random",
            };
            if r.evaluations % 97 == 0 {
                r.outcome(format!("{}:{evname}:{:?}:{}", ad.name, out.st, out.cmds.len()));
            }
            if want != got {
                let what = if got.inner_calls != want.inner_calls {
                    format!("the wrapped actor saw calls {:?}, a direct call is {:?}", got.inner_calls, want.inner_calls)
                } else if got.out != want.out {
                    format!("commands came back as {} instead of {}", got.out, want.out)
                } else {
                    format!("state came back as (owned={}, {}) instead of (owned={}, {})", got.owned, got.state, want.owned, want.state)
                };
                r.violation(&format!("c15:{}:{evname}-not-transparent", ad.name), format!("{what}; handler output {:?}", out), json!({"engine": "c15", "adapter": ad.name, "event": evname, "output": out}));
            }
            r.sample(9001, || json!({"adapter": ad.name, "event": evname, "handler_output": out, "observed": format!("{:?}", got)}));
        }
    }
}

type C1 = Choice<Tab, Never>;
type C2 = Choice<Tab, Choice<Tab, Never>>;
type C3 = Choice<Tab, Choice<Tab, Choice<Tab, Never>>>;

fn render<W: Actor<Timer = u8, Random = u8>>(o: &Out<W>, unm: &dyn Fn(&W::Msg) -> String) -> String {
    let v: Vec<String> = o
        .iter()
        .map(|c| match c {
            Command::Send(d, m) => format!("Send({:?}, {})", d, unm(m)),
            Command::SetTimer(t, _) => format!("SetTimer({t})"),
            Command::CancelTimer(t) => format!("CancelTimer({t})"),
            Command::ChooseRandom(k, l) => format!("ChooseRandom({k}, {:?})", l),
        })
        .collect();
    format!("{:?}", v)
}
fn norm_u8<W: Actor<Msg = u8, Timer = u8, Random = u8>>(o: &Out<W>) -> String {
    render(o, &|m| format!("{m}"))
}
fn norm_r(o: &Out<register::RegisterActor<RTab>>) -> String {
    render(o, &|m| match m {
        register::RegisterMsg::Internal(x) => format!("{x}"),
        other => format!("{:?}", other),
    })
}
fn norm_w(o: &Out<write_once_register::WORegisterActor<WTab>>) -> String {
    render(o, &|m| match m {
        write_once_register::WORegisterMsg::Internal(x) => format!("{x}"),
        other => format!("{:?}", other),
    })
}

fn adapters_run(shared: &SharedReport, menu: &[Output], which: usize) {
    match which {
        0 => per_call(&Adapter::<C1> { name: "choice1", mk: |t| Choice::new(t), wrap_state: |s| Choice::new(s), unwrap_state: |s| *s.get(), msg: |m| m, extra_msgs: &[], norm: norm_u8 }, menu, shared),
        1 => per_call(&Adapter::<C2> { name: "choice2-left", mk: |t| Choice::L(t), wrap_state: |s| Choice::L(s), unwrap_state: |s| match s { Choice::L(x) => *x, Choice::R(x) => *x.get() }, msg: |m| m, extra_msgs: &[], norm: norm_u8 }, menu, shared),
        2 => per_call(&Adapter::<C2> { name: "choice2-right", mk: |t| Choice::R(Choice::new(t)), wrap_state: |s| Choice::R(Choice::new(s)), unwrap_state: |s| match s { Choice::L(x) => *x, Choice::R(x) => *x.get() }, msg: |m| m, extra_msgs: &[], norm: norm_u8 }, menu, shared),
        3 => per_call(&Adapter::<C3> { name: "choice3-pos0", mk: |t| Choice::L(t), wrap_state: |s| Choice::L(s), unwrap_state: unwrap3, msg: |m| m, extra_msgs: &[], norm: norm_u8 }, menu, shared),
        4 => per_call(&Adapter::<C3> { name: "choice3-pos1", mk: |t| Choice::R(Choice::L(t)), wrap_state: |s| Choice::R(Choice::L(s)), unwrap_state: unwrap3, msg: |m| m, extra_msgs: &[], norm: norm_u8 }, menu, shared),
        5 => per_call(&Adapter::<C3> { name: "choice3-pos2", mk: |t| Choice::R(Choice::R(Choice::new(t))), wrap_state: |s| Choice::R(Choice::R(Choice::new(s))), unwrap_state: unwrap3, msg: |m| m, extra_msgs: &[], norm: norm_u8 }, menu, shared),
        6 => per_call(
            &Adapter::<register::RegisterActor<RTab>> {
                name: "register-server",
                mk: |t| register::RegisterActor::Server(RTab(t)),
                wrap_state: |s| register::RegisterActorState::Server(s),
                unwrap_state: |s| match s {
                    register::RegisterActorState::Server(x) => *x,
                    _ => 255,
                },
                msg: rmsg,
                extra_msgs: &[201, 202, 203, 204],
                norm: norm_r,
            },
            menu,
            shared,
        ),
        _ => per_call(
            &Adapter::<write_once_register::WORegisterActor<WTab>> {
                name: "wo-register-server",
                mk: |t| write_once_register::WORegisterActor::Server(WTab(t)),
                wrap_state: |s| write_once_register::WORegisterActorState::Server(s),
                unwrap_state: |s| match s {
                    write_once_register::WORegisterActorState::Server(x) => *x,
                    _ => 255,
                },
                msg: wmsg,
                extra_msgs: &[201, 202, 203, 204, 205],
                norm: norm_w,
            },
            menu,
            shared,
        ),
    }
}

fn unwrap3(s: &<C3 as Actor>::State) -> u8 {
    match s {
        Choice::L(x) => *x,
        Choice::R(Choice::L(x)) => *x,
        Choice::R(Choice::R(x)) => *x.get(),
    }
}

// ------------------------------------------------------------------------------------------------
// Per system: the wrapped zoo is isomorphic to the bare zoo
// ------------------------------------------------------------------------------------------------

fn canon_generic<A: Actor<Timer = u8, Random = u8>>(s: &ActorModelState<A, Hist>, un: &dyn Fn(&A::State) -> u8, unm: &dyn Fn(&A::Msg) -> u8) -> RState {
    let idu = |i: Id| usize::from(i) as u8;
    let net = match &s.network {
        Network::Ordered(map) => RNet::Ordered(map.iter().map(|((a, b), q)| ((idu(*a), idu(*b)), q.iter().map(unm).collect())).collect()),
        Network::UnorderedNonDuplicating(m) => RNet::NonDup(m.iter().map(|(e, c)| ((idu(e.src), idu(e.dst), unm(&e.msg)), *c)).collect()),
        Network::UnorderedDuplicating(set, last) => RNet::Dup(set.iter().map(|e| (idu(e.src), idu(e.dst), unm(&e.msg))).collect(), last.as_ref().map(|e| (idu(e.src), idu(e.dst), unm(&e.msg)))),
    };
    RState {
        local: s.actor_states.iter().map(|a| un(a)).collect(),
        up: s.crashed.iter().map(|c| !*c).collect(),
        timers: s.timers_set.iter().map(|t| t.iter().copied().collect()).collect(),
        choices: s.random_choices.iter().map(|r| r.map.iter().map(|(k, l)| (k.clone(), l.clone())).collect()).collect(),
        net,
        hist: s.history.clone(),
    }
}

fn act_generic<M>(a: &ActorModelAction<M, u8, u8>, unm: &dyn Fn(&M) -> u8) -> RAct {
    let idu = |i: Id| usize::from(i) as u8;
    match a {
        ActorModelAction::Deliver { src, dst, msg } => RAct::Deliver(idu(*src), idu(*dst), unm(msg)),
        ActorModelAction::Drop(e) => RAct::Drop(idu(e.src), idu(e.dst), unm(&e.msg)),
        ActorModelAction::Timeout(i, t) => RAct::Timeout(idu(*i), *t),
        ActorModelAction::Crash(i) => RAct::Crash(idu(*i)),
        ActorModelAction::SelectRandom { actor, key, random } => RAct::Select(idu(*actor), key.clone(), *random),
    }
}

fn graph_of<A>(m: &ActorModel<A, HistMode, Hist>, un: &dyn Fn(&A::State) -> u8, unm: &dyn Fn(&A::Msg) -> u8) -> (BTreeSet<RState>, BTreeSet<(RState, RAct, RState)>, bool)
where
    A: Actor<Timer = u8, Random = u8>,
{
    let g = xplore(m, |s| canon_generic(s, un, unm), 5000, 12);
    let mut edges = BTreeSet::new();
    for (i, es) in g.edges.iter().enumerate() {
        for (a, t) in es {
            let tk = match t {
                Some(j) => g.keys[*j].clone(),
                None => g.keys[i].clone(),
            };
            edges.insert((g.keys[i].clone(), act_generic(a, unm), tk));
        }
    }
    (g.keys.iter().cloned().collect(), edges, g.capped)
}

fn base_model<A: Actor<Timer = u8, Random = u8>>(cfg: &SysCfg, actors: Vec<A>, net: Network<A::Msg>) -> ActorModel<A, HistMode, Hist> {
    ActorModel::new(cfg.hist, Vec::new())
        .actors(actors)
        .init_network(net)
        .lossy_network(if cfg.lossy { LossyNetwork::Yes } else { LossyNetwork::No })
        .max_crashes(cfg.max_crashes)
}

fn empty_net<M: Eq + std::hash::Hash>(k: NetKind) -> Network<M> {
    match k {
        NetKind::Ordered => Network::new_ordered([]),
        NetKind::NonDup => Network::new_unordered_nonduplicating([]),
        NetKind::Dup => Network::new_unordered_duplicating([]),
    }
}

fn per_system(a: &Args, shared: &SharedReport, th: bool) {
    let mut idx = 0u64;
    for z in zoo() {
        if !z.init_net.is_empty() {
            continue; // the wrapped message types differ; systems with an initial network are skipped
        }
        for kind in [NetKind::Ordered, NetKind::NonDup, NetKind::Dup] {
            for max_crashes in if th { vec![0usize, 1] } else { vec![0usize] } {
                idx += 1;
                if idx % a.nshards != a.shard {
                    continue;
                }
                let cfg = SysCfg { kind, lossy: false, max_crashes, hist: HistMode::Off };
                let rv = json!({"engine": "c15sys", "zoo": z.name, "cfg": cfg});
                begin_case(shared, "c15 system", rv.clone(), "machinery:hang");
                let bare = graph_of(&base_model(&cfg, z.tabs(), empty_net::<u8>(kind)), &|s| *s, &|m| *m);
                let mut results: Vec<(&'static str, (BTreeSet<RState>, BTreeSet<(RState, RAct, RState)>, bool))> = Vec::new();
                results.push(("choice1", graph_of(&base_model(&cfg, z.tabs().into_iter().map(|t| -> C1 { Choice::new(t) }).collect(), empty_net::<u8>(kind)), &|s: &Choice<u8, Never>| *s.get(), &|m| *m)));
                // alternate positions per actor index
                results.push((
                    "choice3-mixed",
                    graph_of(
                        &base_model(
                            &cfg,
                            z.tabs()
                                .into_iter()
                                .enumerate()
                                .map(|(i, t)| -> C3 {
                                    match i % 3 {
                                        0 => Choice::L(t),
                                        1 => Choice::R(Choice::L(t)),
                                        _ => Choice::R(Choice::R(Choice::new(t))),
                                    }
                                })
                                .collect(),
                            empty_net::<u8>(kind),
                        ),
                        &unwrap3,
                        &|m| *m,
                    ),
                ));
                results.push((
                    "register-server",
                    graph_of(
                        &base_model(&cfg, z.tabs().into_iter().map(|t| register::RegisterActor::Server(RTab(t))).collect(), empty_net::<RMsg>(kind)),
                        &|s: &register::RegisterActorState<u8, u64>| match s {
                            register::RegisterActorState::Server(x) => *x,
                            _ => 255,
                        },
                        &|m: &RMsg| match m {
                            register::RegisterMsg::Internal(x) => *x,
                            _ => 255,
                        },
                    ),
                ));
                results.push((
                    "wo-register-server",
                    graph_of(
                        &base_model(&cfg, z.tabs().into_iter().map(|t| write_once_register::WORegisterActor::Server(WTab(t))).collect(), empty_net::<WMsg>(kind)),
                        &|s: &write_once_register::WORegisterActorState<u8, u64>| match s {
                            write_once_register::WORegisterActorState::Server(x) => *x,
                            _ => 255,
                        },
                        &|m: &WMsg| match m {
                            write_once_register::WORegisterMsg::Internal(x) => *x,
                            _ => 255,
                        },
                    ),
                ));
                end_case(shared);
                let mut r = shared.lock().unwrap();
                for (name, g) in results {
                    r.evaluations += 1;
                    r.nontrivial += 1;
                    r.traces += 1;
                    r.states += g.0.len() as u64;
                    r.transitions += g.1.len() as u64;
                    r.outcome(format!("sys:{}:{}:{}", z.name, name, g.0.len()));
                    if g.2 || bare.2 {
                        r.count("graphs_capped", 1);
                        continue;
                    }
                    if g.0 != bare.0 || g.1 != bare.1 {
                        let missing = bare.1.difference(&g.1).next().cloned();
                        let extra = g.1.difference(&bare.1).next().cloned();
                        r.violation(&format!("c15:{name}:system-not-isomorphic"), format!("zoo {} {:?}: bare system has {} states / {} edges, wrapped in {name} it has {} / {}; e.g. missing edge {:?}, extra edge {:?}", z.name, cfg, bare.0.len(), bare.1.len(), g.0.len(), g.1.len(), missing, extra), rv.clone());
                    }
                }
                r.sample(11, || json!({"zoo": z.name, "cfg": cfg, "bare_states": bare.0.len(), "bare_edges": bare.1.len()}));
            }
        }
    }
}

// ------------------------------------------------------------------------------------------------
// Vec client
// ------------------------------------------------------------------------------------------------

fn vec_client(shared: &SharedReport, th: bool) {
    let alphabet: Vec<(Id, u8)> = vec![(Id::from(0usize), 0), (Id::from(0usize), 1), (Id::from(2usize), 0), (Id::from(2usize), 1)];
    let mut scripts: Vec<Vec<(Id, u8)>> = vec![vec![]];
    let mut layer = scripts.clone();
    for _ in 0..3 {
        let mut next = Vec::new();
        for s in &layer {
            for x in &alphabet {
                let mut s2 = s.clone();
                s2.push(*x);
                next.push(s2);
            }
        }
        scripts.extend(next.iter().cloned());
        layer = next;
    }
    let incoming_len = if th { 5 } else { 4 };
    for script in &scripts {
        for code in 0..2u32.pow(incoming_len) {
            let mut o = Out::<Vec<(Id, u8)>>::new();
            let mut state = script.on_start(Id::from(1usize), &mut o);
            let mut sent: Vec<String> = vec![format!("{:?}", o)];
            for k in 0..incoming_len {
                let m = ((code >> k) & 1) as u8;
                let mut o = Out::<Vec<(Id, u8)>>::new();
                let mut c = Cow::Borrowed(&state);
                script.on_msg(Id::from(1usize), &mut c, Id::from(((code >> k) & 1) as usize * 2), m, &mut o);
                let ns = *c;
                sent.push(format!("{:?}", o));
                state = ns;
            }
            let mut r = shared.lock().unwrap();
            r.evaluations += 1;
            r.traces += 1;
            r.transitions += incoming_len as u64 + 1;
            if !script.is_empty() {
                r.nontrivial += 1;
            }
            let mut want: Vec<String> = Vec::new();
            for k in 0..=(incoming_len as usize) {
                want.push(match script.get(k) {
                    Some((d, m)) => format!("[Send({:?}, {:?})]", d, m),
                    None => "[]".into(),
                });
            }
            let want_state = script.len().min(incoming_len as usize + 1);
            if sent != want || state != want_state {
                r.violation("c15:vec-client", format!("script {:?}: sends per step {:?} (state {state}), expected {:?} (state {want_state})", script, sent, want), json!({"engine": "c15vec", "script": format!("{:?}", script), "incoming": code}));
            }
            if r.evaluations % 499 == 0 {
                r.outcome(format!("vec:{}:{}", script.len(), state));
            }
        }
    }
}

pub fn run_c15(a: &Args, shared: &SharedReport) {
    let th = a.tier == "thorough";
    {
        let mut r = shared.lock().unwrap();
        r.rule = "per call: 8 adapter placements x 4 event kinds x every handler output of the menu, compared with a direct call of the wrapped actor (calls seen, commands, state ownership and value); per system: state graph of every zoo system wrapped in each adapter vs bare; Vec client: all scripts x all incoming sequences; non-trivial = output has a command or changes the state".into();
        r.bounds = json!({"adapters": ["Choice<A,Never>", "Choice<A1,A2> L/R", "choice![A,B,C] positions 0-2", "RegisterActor::Server", "WORegisterActor::Server"], "events": ["start","msg","timeout","random"], "outputs": if th {"819 + all 12288 outputs with lists of length 3"} else {"819 + 4096 lists of length 3 (Keep)"}, "systems": "zoo systems without initial network x 3 kinds (x crashes<=1 in thorough)", "vec_client": "scripts of length <=3 over 4 (dst,msg) pairs x all incoming sequences of length 4 (5)"});
    }
    let mut menu = output_menu(2, 7);
    menu.extend(output_menu(3, 7).into_iter().filter(|o| o.cmds.len() == 3 && (th || o.st == StOp::Keep)));
    for which in 0..8usize {
        if (which as u64) % a.nshards == a.shard {
            adapters_run(shared, &menu, which);
        }
    }
    per_system(a, shared, th);
    if a.shard == a.nshards - 1 {
        vec_client(shared, th);
    }
}
