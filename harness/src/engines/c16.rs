//! C16 — the ordered reliable link: every reachable state of small link-wrapped systems over lossy,
//! duplicating / reordering networks satisfies the prefix and no-early-ack invariants.

use crate::report::*;
use crate::Args;
use serde_json::json;
use stateright::actor::ordered_reliable_link::*;
use stateright::actor::*;
use stateright::*;
use std::borrow::Cow;
use std::collections::{HashMap, VecDeque};

#[derive(Clone, Debug)]
pub struct LinkActor {
    /// sent in this order at start
    pub script: Vec<(Id, u8)>,
    /// reply to every handed message m with m+100 to its source
    pub echo: bool,
    /// an echo that keeps no state at all: the handler leaves its state untouched and only sends
    pub stateless: bool,
    /// a payload this actor's handler ignores (no state change, no output): the link must still
    /// advance past it
    pub ignore: Option<u8>,
}
pub type LState = Vec<(Id, u8)>;

impl Actor for LinkActor {
    type Msg = u8;
    type State = LState;
    type Timer = ();
    type Random = ();
    fn on_start(&self, _id: Id, o: &mut Out<Self>) -> LState {
        for (d, m) in &self.script {
            o.send(*d, *m);
        }
        vec![]
    }
    fn on_msg(&self, _id: Id, state: &mut Cow<LState>, src: Id, msg: u8, o: &mut Out<Self>) {
        if Some(msg) == self.ignore {
            return;
        }
        if self.stateless {
            if msg < 100 {
                o.send(src, msg + 100);
            }
            return;
        }
        state.to_mut().push((src, msg));
        if self.echo && msg < 100 {
            o.send(src, msg + 100);
        }
    }
}

type W = ActorWrapper<LinkActor>;
type SysState = ActorModelState<W, ()>;
type Sys = ActorModel<W, usize, ()>;

fn id(i: usize) -> Id {
    Id::from(i)
}

#[derive(Clone, Debug)]
struct LinkSys {
    name: String,
    actors: Vec<LinkActor>,
}

fn systems(th: bool) -> Vec<LinkSys> {
    let mut v = Vec::new();
    let quiet = || LinkActor { script: vec![], echo: false, stateless: false, ignore: None };
    // every sequence of <= 3 (2) messages over payloads {1,2,3} without repetition, plus repeated payloads
    let max = 3;
    let mut seqs: Vec<Vec<u8>> = vec![vec![1], vec![1, 2], vec![2, 1], vec![1, 1]];
    if max >= 3 {
        seqs.extend(vec![vec![1, 2, 3], vec![3, 1, 2], vec![1, 2, 1], vec![2, 2, 2]]);
    }
    for s in &seqs {
        v.push(LinkSys { name: format!("one-way {:?}", s), actors: vec![LinkActor { script: s.iter().map(|m| (id(1), *m)).collect(), echo: false, stateless: false, ignore: None }, quiet()] });
    }
    // a receiver that ignores payload 9: the remaining messages must still arrive, in order
    v.push(LinkSys { name: "ignoring receiver [1,9,2]".into(), actors: vec![LinkActor { script: vec![(id(1), 1), (id(1), 9), (id(1), 2)], echo: false, stateless: false, ignore: None }, LinkActor { script: vec![], echo: false, stateless: false, ignore: Some(9) }] });
    v.push(LinkSys { name: "ignoring receiver [9,1]".into(), actors: vec![LinkActor { script: vec![(id(1), 9), (id(1), 1)], echo: false, stateless: false, ignore: None }, LinkActor { script: vec![], echo: false, stateless: false, ignore: Some(9) }] });
    v.push(LinkSys { name: "two-way [1,2] / [3,4]".into(), actors: vec![LinkActor { script: vec![(id(1), 1), (id(1), 2)], echo: false, stateless: false, ignore: None }, LinkActor { script: vec![(id(0), 3), (id(0), 4)], echo: false, stateless: false, ignore: None }] });
    v.push(LinkSys { name: "echo [1,2]".into(), actors: vec![LinkActor { script: vec![(id(1), 1), (id(1), 2)], echo: false, stateless: false, ignore: None }, LinkActor { script: vec![], echo: true, stateless: false, ignore: None }] });
    // a receiver that keeps no state and only replies: what it was handed shows in what the sender gets back
    v.push(LinkSys { name: "stateless echo [1,2]".into(), actors: vec![LinkActor { script: vec![(id(1), 1), (id(1), 2)], echo: false, stateless: false, ignore: None }, LinkActor { script: vec![], echo: true, stateless: true, ignore: None }] });
    v.push(LinkSys { name: "stateless echo [1]".into(), actors: vec![LinkActor { script: vec![(id(1), 1)], echo: false, stateless: false, ignore: None }, LinkActor { script: vec![], echo: true, stateless: true, ignore: None }] });
    // two senders into one receiver: the receive sequencers are per source
    v.push(LinkSys { name: "two senders [0->2:1,2] [1->2:3]".into(), actors: vec![LinkActor { script: vec![(id(2), 1), (id(2), 2)], echo: false, stateless: false, ignore: None }, LinkActor { script: vec![(id(2), 3)], echo: false, stateless: false, ignore: None }, quiet()] });
    v.push(LinkSys { name: "two peers [->1:1, ->2:2, ->1:3]".into(), actors: vec![LinkActor { script: vec![(id(1), 1), (id(2), 2), (id(1), 3)], echo: false, stateless: false, ignore: None }, quiet(), quiet()] });
    if th {
        v.push(LinkSys { name: "two peers [->2:1, ->1:2, ->1:3]".into(), actors: vec![LinkActor { script: vec![(id(2), 1), (id(1), 2), (id(1), 3)], echo: false, stateless: false, ignore: None }, quiet(), quiet()] });
        v.push(LinkSys { name: "echo [1,2,3]".into(), actors: vec![LinkActor { script: vec![(id(1), 1), (id(1), 2), (id(1), 3)], echo: false, stateless: false, ignore: None }, LinkActor { script: vec![], echo: true, stateless: false, ignore: None }] });
    }
    v
}

fn build(sys: &LinkSys, dup: bool, bound: usize) -> Sys {
    let net = if dup { Network::new_unordered_duplicating([]) } else { Network::new_unordered_nonduplicating([]) };
    ActorModel::new(bound, ())
        .actors(sys.actors.iter().map(|a| ActorWrapper::with_default_timeout(a.clone())))
        .init_network(net)
        .lossy_network(LossyNetwork::Yes)
        .within_boundary(|b, s| s.network.len() <= *b)
}

/// what the sender would retransmit now = what it still considers unacknowledged
fn pending(actor: &W, i: usize, st: &SysState) -> Vec<(Id, u64, u8)> {
    let mut o = Out::<W>::new();
    let mut c = Cow::Borrowed(&*st.actor_states[i]);
    actor.on_timeout(id(i), &mut c, &TimerWrapper::Network, &mut o);
    let mut v = Vec::new();
    for cmd in o.iter() {
        if let Command::Send(d, MsgWrapper::Deliver(seq, m)) = cmd {
            v.push((*d, *seq, *m));
        }
    }
    v.sort();
    v
}

/// Everything `src`'s inner actor sends to `dst` in a complete run: its script, then the replies to what `dst`'s
/// script sends it (an echo answers in the order it is handed messages, which is the order they were sent).
fn expected_full(sys: &LinkSys, src: usize, dst: usize) -> Vec<u8> {
    let ignored = sys.actors[dst].ignore;
    let mut v: Vec<u8> = sys.actors[src].script.iter().filter(|(d, m)| *d == id(dst) && Some(*m) != ignored).map(|(_, m)| *m).collect();
    if sys.actors[src].echo {
        let ign_src = sys.actors[src].ignore;
        v.extend(sys.actors[dst].script.iter().filter(|(d, m)| *d == id(src) && Some(*m) != ign_src && *m < 100).map(|(_, m)| *m + 100));
    }
    v
}

/// every flow has been handed over completely
fn complete(sys: &LinkSys, s: &SysState) -> bool {
    let n = sys.actors.len();
    for src in 0..n {
        for dst in 0..n {
            if src == dst || sys.actors[dst].stateless {
                continue;
            }
            let want = expected_full(sys, src, dst);
            let handed: Vec<u8> = s.actor_states[dst].verif_wrapped_state().iter().filter(|(f, _)| *f == id(src)).map(|(_, m)| *m).collect();
            if handed != want {
                return false;
            }
        }
    }
    true
}

fn is_prefix(a: &[u8], b: &[u8]) -> bool {
    a.len() <= b.len() && a == &b[..a.len()]
}

pub fn run_c16(a: &Args, shared: &SharedReport) {
    let th = a.tier == "thorough";
    {
        let mut r = shared.lock().unwrap();
        r.rule = "every reachable state (explicit search, de-duplicated on the state's own Hash/Eq) of every link-wrapped system in the family over lossy duplicating and non-duplicating unordered networks within the network-size boundary; invariants: handed-over sequence is a prefix of the sent sequence, nothing is acknowledged before it was handed over, all acknowledged => sequences equal, and from every reachable state a state with every flow handed over completely is still reachable; non-trivial = at least one message was handed over or dropped".into();
        r.bounds = json!({"messages_per_flow": "<=3", "network_boundary": if th {"len <= 6"} else {"len <= 5"}, "systems": "one-way scripts (distinct and repeated payloads), two-way, echo, stateless echo (replies without touching its state), one sender to two peers, two senders to one receiver", "networks": ["unordered duplicating lossy", "unordered non-duplicating lossy"]});
    }
    let bound = if th { 6 } else { 5 };
    let mut idx = 0u64;
    for sys in systems(th) {
        for dup in [true, false] {
            idx += 1;
            if idx % a.nshards != a.shard {
                continue;
            }
            let m = build(&sys, dup, bound);
            let rv = json!({"engine": "c16", "system": sys.name, "duplicating": dup, "boundary": bound});
            let wrappers: Vec<W> = m.actors.clone();
            // breadth-first search with parent pointers for counterexample traces
            let mut index: HashMap<SysState, usize> = HashMap::new();
            let mut states: Vec<SysState> = Vec::new();
            let mut parent: Vec<Option<(usize, String)>> = Vec::new();
            let mut q = VecDeque::new();
            for s in m.init_states() {
                index.insert(s.clone(), 0);
                states.push(s);
                parent.push(None);
                q.push_back(0usize);
            }
            let mut transitions = 0u64;
            let mut edges: Vec<(u32, u32)> = Vec::new();
            let cap = if th { 3_000_000usize } else { 600_000usize };
            let mut capped = false;
            let mut viol: Vec<(String, String)> = Vec::new();
            let n = sys.actors.len();
            while let Some(i) = q.pop_front() {
                let s = states[i].clone();
                // ---- invariants on this state ----
                let trace = |mut k: usize| {
                    let mut t = Vec::new();
                    while let Some((p, a)) = &parent[k] {
                        t.push(a.clone());
                        k = *p;
                    }
                    t.reverse();
                    t
                };
                for src in 0..n {
                    let pend = pending(&wrappers[src], src, &s);
                    for dst in 0..n {
                        if src == dst {
                            continue;
                        }
                        if sys.actors[dst].stateless {
                            continue; // nothing to observe in a stateless receiver; its replies are observed at the sender
                        }
                        if sys.actors[src].stateless {
                            // src keeps no record of what it was handed: what it must have sent follows from the peer's script
                            let full = expected_full(&sys, src, dst);
                            let handed: Vec<u8> = s.actor_states[dst].verif_wrapped_state().iter().filter(|(f, _)| *f == id(src)).map(|(_, m)| *m).collect();
                            if !is_prefix(&handed, &full) {
                                viol.push(("c16:handed-over-not-a-prefix".into(), format!("{}: actor {dst} was handed {:?} from the stateless echo {src}, which answers {:?}; trace {:?}", sys.name, handed, full, trace(i))));
                            }
                            let back = pending(&wrappers[dst], dst, &s);
                            if pend.iter().all(|(d, _, _)| *d != id(dst)) && back.iter().all(|(d, _, _)| *d != id(src)) && handed != full {
                                viol.push(("c16:all-acknowledged-but-sequences-differ".into(), format!("{}: neither {dst} nor the stateless echo {src} has anything left to retransmit, but {dst} was handed {:?} of the answers {:?}; trace {:?}", sys.name, handed, full, trace(i))));
                            }
                            continue;
                        }
                        // what src's inner actor has sent to dst so far, in order
                        let ignored = sys.actors[dst].ignore;
                        let mut sent: Vec<u8> = sys.actors[src].script.iter().filter(|(d, m)| *d == id(dst) && Some(*m) != ignored).map(|(_, m)| *m).collect();
                        if sys.actors[src].echo {
                            let handed_to_src: Vec<u8> = s.actor_states[src].verif_wrapped_state().iter().filter(|(f, m)| *f == id(dst) && *m < 100).map(|(_, m)| *m + 100).collect();
                            sent.extend(handed_to_src);
                        }
                        if sent.is_empty() {
                            continue;
                        }
                        let handed: Vec<u8> = s.actor_states[dst].verif_wrapped_state().iter().filter(|(f, _)| *f == id(src)).map(|(_, m)| *m).collect();
                        if !is_prefix(&handed, &sent) {
                            viol.push(("c16:handed-over-not-a-prefix".into(), format!("{}: actor {dst} was handed {:?} from {src}, which sent {:?}; trace {:?}", sys.name, handed, sent, trace(i))));
                        }
                        let pend_to: Vec<u8> = pend.iter().filter(|(d, _, m)| *d == id(dst) && Some(*m) != ignored).map(|(_, _, m)| *m).collect();
                        let acked = sent.len().saturating_sub(pend_to.len());
                        if acked > handed.len() {
                            viol.push(("c16:acknowledged-before-handed-over".into(), format!("{}: {src} sent {:?} to {dst} and still retransmits {:?} ({} acknowledged), but {dst} was handed only {:?}; trace {:?}", sys.name, sent, pend_to, acked, handed, trace(i))));
                        }
                        // distinct payloads: per-message form of the same statement
                        let mut distinct = sent.clone();
                        distinct.sort();
                        distinct.dedup();
                        if distinct.len() == sent.len() {
                            for (j, msg) in sent.iter().enumerate() {
                                if !pend_to.contains(msg) && j >= handed.len() {
                                    viol.push(("c16:acknowledged-before-handed-over".into(), format!("{}: message {msg} from {src} to {dst} is no longer retransmitted but was never handed over (handed {:?}); trace {:?}", sys.name, handed, trace(i))));
                                }
                            }
                        }
                        if pend_to.is_empty() && handed != sent {
                            viol.push(("c16:all-acknowledged-but-sequences-differ".into(), format!("{}: nothing pending from {src} to {dst} but handed {:?} != sent {:?}; trace {:?}", sys.name, handed, sent, trace(i))));
                        }
                    }
                }
                if viol.len() > 6 {
                    break;
                }
                // ---- successors ----
                let mut acts = Vec::new();
                m.actions(&s, &mut acts);
                for act in acts {
                    let label = format!("{:?}", act);
                    transitions += 1;
                    if let Some(nx) = m.next_state(&s, act) {
                        if !Model::within_boundary(&m, &nx) {
                            continue;
                        }
                        match index.get(&nx) {
                            Some(&j) => edges.push((i as u32, j as u32)),
                            None => {
                                if states.len() >= cap {
                                    capped = true;
                                    continue;
                                }
                                index.insert(nx.clone(), states.len());
                                edges.push((i as u32, states.len() as u32));
                                states.push(nx);
                                parent.push(Some((i, label)));
                                q.push_back(states.len() - 1);
                            }
                        }
                    }
                }
            }
            // "exactly once" is also "not zero times": from every reachable state complete delivery must still be
            // possible (the network may stop dropping, retransmission must then get everything through). Backward
            // reachability from the states in which every flow has been handed over completely.
            if !capped && viol.is_empty() {
                let ns = states.len();
                let mut radj: Vec<Vec<u32>> = vec![Vec::new(); ns];
                for (a, b) in &edges {
                    radj[*b as usize].push(*a);
                }
                let mut can: Vec<bool> = states.iter().map(|s| complete(&sys, s)).collect();
                let mut stack: Vec<usize> = (0..ns).filter(|k| can[*k]).collect();
                let goals = stack.len();
                while let Some(k) = stack.pop() {
                    for p in &radj[k] {
                        if !can[*p as usize] {
                            can[*p as usize] = true;
                            stack.push(*p as usize);
                        }
                    }
                }
                if let Some(k) = (0..ns).find(|k| !can[*k]) {
                    let mut t = Vec::new();
                    let mut kk = k;
                    while let Some((p, a)) = &parent[kk] {
                        t.push(a.clone());
                        kk = *p;
                    }
                    t.reverse();
                    let stuck = (0..ns).filter(|k| !can[*k]).count();
                    viol.push(("c16:delivery-no-longer-possible".into(), format!("{}: {stuck} reachable states ({goals} complete ones exist) have no continuation in which every message is handed over; e.g. after {:?}: network {:?}, timers {:?}", sys.name, t, states[k].network, states[k].timers_set)));
                }
            }
            let mut r = shared.lock().unwrap();
            r.evaluations += states.len() as u64;
            r.states += states.len() as u64;
            r.transitions += transitions;
            r.traces += 1;
            r.nontrivial += states.iter().filter(|s| s.actor_states.iter().any(|a| !a.verif_wrapped_state().is_empty())).count() as u64;
            r.outcome(format!("{}:{}:{}", sys.name, dup, states.len()));
            if capped {
                r.cap(format!("{} dup={dup}: state cap {cap} hit", sys.name));
            }
            for (k, w) in viol {
                r.violation(&k, w, rv.clone());
            }
            r.sample(1, || json!({"system": sys.name, "duplicating": dup, "boundary": bound, "states": states.len(), "transitions": transitions}));
        }
    }
}
