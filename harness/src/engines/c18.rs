//! C18b — the register harness (RegisterActor / WORegisterActor clients + record_invocations /
//! record_returns hooks) yields well-formed histories that mirror the client-visible calls.

use crate::report::*;
use crate::Args;
use serde_json::json;
use stateright::actor::register::{RegisterActor, RegisterActorState, RegisterMsg};
use stateright::actor::write_once_register::{WORegisterActor, WORegisterActorState, WORegisterMsg};
use stateright::actor::*;
use stateright::semantics::register::{Register, RegisterOp, RegisterRet};
use stateright::semantics::write_once_register::{WORegister, WORegisterOp, WORegisterRet};
use stateright::semantics::{ConsistencyTester, LinearizabilityTester};
use stateright::*;
use std::borrow::Cow;
use std::collections::{HashMap, VecDeque};

/// A "seen" set for values that are Hash + PartialEq but not Eq.
pub struct Seen<T> {
    buckets: HashMap<u64, Vec<T>>,
    len: usize,
}
impl<T: std::hash::Hash + PartialEq> Seen<T> {
    pub fn new() -> Self {
        Seen { buckets: HashMap::new(), len: 0 }
    }
    pub fn contains(&self, t: &T) -> bool {
        self.buckets.get(&crate::hooks::fingerprint_of(t)).map(|b| b.iter().any(|x| x == t)).unwrap_or(false)
    }
    pub fn insert(&mut self, t: T) {
        self.len += 1;
        self.buckets.entry(crate::hooks::fingerprint_of(&t)).or_default().push(t);
    }
    pub fn len(&self) -> usize {
        self.len
    }
}

/// reply of a scripted server: (to a Put, to a Get) per local state, and the next local state
#[derive(Clone, Copy, Debug, PartialEq, Eq, Hash)]
pub struct Rule {
    /// 0 = silent, 1 = PutOk, 2 = PutFail (write-once only)
    pub on_put: u8,
    /// 0 = silent, otherwise GetOk(values[k-1])
    pub on_get: u8,
    pub next_put: u8,
    pub next_get: u8,
}
const VALUES: [char; 3] = ['A', 'Z', 'q'];

#[derive(Clone, Debug)]
pub struct Srv {
    pub rules: Vec<Rule>,
}
impl Actor for Srv {
    type Msg = RegisterMsg<u64, char, ()>;
    type State = u8;
    type Timer = ();
    type Random = ();
    fn on_start(&self, _id: Id, _o: &mut Out<Self>) -> u8 {
        0
    }
    fn on_msg(&self, _id: Id, state: &mut Cow<u8>, src: Id, msg: Self::Msg, o: &mut Out<Self>) {
        let r = self.rules[**state as usize];
        match msg {
            RegisterMsg::Put(rid, _) => {
                if r.on_put == 1 {
                    o.send(src, RegisterMsg::PutOk(rid));
                }
                if r.next_put != **state {
                    *state.to_mut() = r.next_put;
                }
            }
            RegisterMsg::Get(rid) => {
                if r.on_get > 0 {
                    o.send(src, RegisterMsg::GetOk(rid, VALUES[(r.on_get - 1) as usize]));
                }
                if r.next_get != **state {
                    *state.to_mut() = r.next_get;
                }
            }
            _ => {}
        }
    }
}

#[derive(Clone, Debug)]
pub struct WSrv {
    pub rules: Vec<Rule>,
}
impl Actor for WSrv {
    type Msg = WORegisterMsg<u64, char, ()>;
    type State = u8;
    type Timer = ();
    type Random = ();
    fn on_start(&self, _id: Id, _o: &mut Out<Self>) -> u8 {
        0
    }
    fn on_msg(&self, _id: Id, state: &mut Cow<u8>, src: Id, msg: Self::Msg, o: &mut Out<Self>) {
        let r = self.rules[**state as usize];
        match msg {
            WORegisterMsg::Put(rid, _) => {
                match r.on_put {
                    1 => o.send(src, WORegisterMsg::PutOk(rid)),
                    2 => o.send(src, WORegisterMsg::PutFail(rid)),
                    _ => {}
                }
                if r.next_put != **state {
                    *state.to_mut() = r.next_put;
                }
            }
            WORegisterMsg::Get(rid) => {
                if r.on_get > 0 {
                    o.send(src, WORegisterMsg::GetOk(rid, VALUES[(r.on_get - 1) as usize]));
                }
                if r.next_get != **state {
                    *state.to_mut() = r.next_get;
                }
            }
            _ => {}
        }
    }
}

fn rule_sets(th: bool, wo: bool) -> Vec<Vec<Rule>> {
    // single-state servers: every reply combination; two-state servers: a sample that flips behaviour
    let mut v = Vec::new();
    let puts: Vec<u8> = if wo { vec![0, 1, 2] } else { vec![0, 1] };
    for &p in &puts {
        for g in 0..=3u8 {
            v.push(vec![Rule { on_put: p, on_get: g, next_put: 0, next_get: 0 }]);
        }
    }
    let flips = if th { 3 } else { 1 };
    for &p in &puts {
        for g in 1..=flips {
            v.push(vec![Rule { on_put: p, on_get: g, next_put: 1, next_get: 0 }, Rule { on_put: 1, on_get: (g % 3) + 1, next_put: 1, next_get: 0 }]);
            v.push(vec![Rule { on_put: 1, on_get: g, next_put: 0, next_get: 1 }, Rule { on_put: p, on_get: 0, next_put: 0, next_get: 1 }]);
        }
    }
    v
}

macro_rules! harness {
    ($fname:ident, $srv:ident, $actor:ident, $state:ident, $msg:ident, $spec:ident, $op:ident, $ret:ident, $init:expr, $woflag:expr) => {
        fn $fname(a: &Args, shared: &SharedReport, th: bool, idx: &mut u64) {
            type H = LinearizabilityTester<Id, $spec<char>>;
            type St = ActorModelState<$actor<$srv>, H>;
            for rules in rule_sets(th, $woflag) {
                for servers in if th { vec![1usize, 2] } else { vec![1usize] } {
                    for clients in [1usize, 2] {
                        for put_count in 0..=2usize {
                            for kind in 0..3 {
                                for lossy in [false, true] {
                                    *idx += 1;
                                    if *idx % a.nshards != a.shard {
                                        continue;
                                    }
                                    if !th && lossy && kind != 2 {
                                        continue;
                                    }
                                    if clients == 2 && put_count == 2 && (kind != 0 || lossy) && !th {
                                        continue;
                                    }
                                    if !th && clients == 2 && lossy && rules.len() == 2 {
                                        continue;
                                    }
                                    if clients == 2 && put_count == 2 && kind == 1 && lossy {
                                        continue;
                                    }
                                    let net: Network<$msg<u64, char, ()>> = match kind {
                                        0 => Network::new_ordered([]),
                                        1 => Network::new_unordered_nonduplicating([]),
                                        _ => Network::new_unordered_duplicating([]),
                                    };
                                    let mut m = ActorModel::<$actor<$srv>, (), H>::new((), LinearizabilityTester::new($init))
                                        .init_network(net)
                                        .lossy_network(if lossy { LossyNetwork::Yes } else { LossyNetwork::No })
                                        .record_msg_in($msg::record_returns)
                                        .record_msg_out($msg::record_invocations);
                                    for _ in 0..servers {
                                        m = m.actor($actor::Server($srv { rules: rules.clone() }));
                                    }
                                    for _ in 0..clients {
                                        m = m.actor($actor::Client { put_count, server_count: servers });
                                    }
                                    let desc = format!("{} rules {:?} servers {servers} clients {clients} put_count {put_count} network {kind} lossy {lossy}", stringify!($actor), rules);
                                    let rv = json!({"engine": "c18b", "system": desc});
                                    begin_case(shared, &desc, rv.clone(), "machinery:hang-long");
                                    // shadow for the initial state
                                    let init = m.init_states().remove(0);
                                    let mut shadow0: H = LinearizabilityTester::new($init);
                                    let mut viol: Vec<(String, String)> = Vec::new();
                                    for c in servers..servers + clients {
                                        if put_count > 0 {
                                            let v = (b'A' + (c - servers) as u8) as char;
                                            if shadow0.on_invoke(Id::from(c), $op::Write(v)).is_err() {
                                                viol.push(("c18:shadow-rejects-initial-invocation".into(), desc.clone()));
                                            }
                                        }
                                        match &**init.actor_states.get(c).unwrap() {
                                            $state::Client { awaiting, op_count } => {
                                                let want = if put_count > 0 { (Some(c as u64), 1u64) } else { (None, 0u64) };
                                                if (*awaiting, *op_count) != want {
                                                    viol.push(("c18:client-initial-state".into(), format!("{desc}: client {c} starts with awaiting={:?} op_count={op_count}", awaiting)));
                                                }
                                            }
                                            _ => viol.push(("c18:client-initial-state".into(), format!("{desc}: actor {c} is not a client"))),
                                        }
                                    }
                                    if init.history != shadow0 {
                                        viol.push(("c18:history-differs-from-client-calls".into(), format!("{desc}: initial history {:?} vs client-visible calls {:?}", init.history, shadow0)));
                                    }
                                    let mut index: Seen<(St, H)> = Seen::new();
                                    let mut q: VecDeque<(St, H, Vec<String>)> = VecDeque::new();
                                    index.insert((init.clone(), shadow0.clone()));
                                    q.push_back((init, shadow0, vec![]));
                                    let mut transitions = 0u64;
                                    let cap = 60_000usize;
                                    let mut capped = false;
                                    while let Some((s, shadow, trace)) = q.pop_front() {
                                        if viol.len() > 3 {
                                            break;
                                        }
                                        let mut acts = Vec::new();
                                        m.actions(&s, &mut acts);
                                        for act in acts {
                                            transitions += 1;
                                            let label = format!("{:?}", act);
                                            let delivered = match &act {
                                                ActorModelAction::Deliver { dst, msg, .. } => Some((usize::from(*dst), msg.clone())),
                                                _ => None,
                                            };
                                            let nx = match m.next_state(&s, act) {
                                                Some(n) => n,
                                                None => continue,
                                            };
                                            let mut sh = shadow.clone();
                                            let mut tr2 = trace.clone();
                                            tr2.push(label);
                                            for c in servers..servers + clients {
                                                let (aw, n) = match &*s.actor_states[c] {
                                                    $state::Client { awaiting, op_count } => (*awaiting, *op_count),
                                                    _ => continue,
                                                };
                                                let (aw2, n2) = match &*nx.actor_states[c] {
                                                    $state::Client { awaiting, op_count } => (*awaiting, *op_count),
                                                    _ => continue,
                                                };
                                                if n2 == n {
                                                    if aw2 != aw {
                                                        viol.push(("c18:client-awaiting-changed-without-op".into(), format!("{desc}: client {c}; trace {:?}", tr2)));
                                                    }
                                                    continue;
                                                }
                                                if n2 != n + 1 {
                                                    viol.push(("c18:client-op-count-jump".into(), format!("{desc}: client {c} op_count {n} -> {n2}; trace {:?}", tr2)));
                                                    continue;
                                                }
                                                // a reply was accepted by client c
                                                let ret = match &delivered {
                                                    Some((d, reply)) if *d == c => harness!(@ret $msg, $ret, reply, aw),
                                                    _ => None,
                                                };
                                                match ret {
                                                    None => viol.push(("c18:client-advanced-without-matching-reply".into(), format!("{desc}: client {c} advanced (awaiting {:?}) on {:?}; trace {:?}", aw, delivered.as_ref().map(|x| format!("{:?}", x.1)), tr2))),
                                                    Some(r) => {
                                                        if sh.on_return(Id::from(c), r).is_err() {
                                                            viol.push(("c18:return-without-invocation".into(), format!("{desc}: client {c}; trace {:?}", tr2)));
                                                        }
                                                    }
                                                }
                                                if let Some(y) = aw2 {
                                                    if Some(y) <= aw {
                                                        viol.push(("c18:request-id-not-fresh".into(), format!("{desc}: client {c} reuses request id {y} after {:?}; trace {:?}", aw, tr2)));
                                                    }
                                                    let op = if (n as usize) < put_count { $op::Write((b'Z' - (c - servers) as u8) as char) } else { $op::Read };
                                                    if sh.on_invoke(Id::from(c), op).is_err() {
                                                        viol.push(("c18:second-operation-in-flight".into(), format!("{desc}: client {c}; trace {:?}", tr2)));
                                                    }
                                                }
                                            }
                                            if nx.history != sh {
                                                viol.push(("c18:history-differs-from-client-calls".into(), format!("{desc}: after {:?} the recorded history is {:?} but the client-visible calls give {:?}", tr2, nx.history, sh)));
                                            }
                                            if !index.contains(&(nx.clone(), sh.clone())) {
                                                if index.len() >= cap {
                                                    capped = true;
                                                    continue;
                                                }
                                                index.insert((nx.clone(), sh.clone()));
                                                q.push_back((nx, sh, tr2));
                                            }
                                        }
                                    }
                                    end_case(shared);
                                    let mut r = shared.lock().unwrap();
                                    r.evaluations += 1;
                                    r.traces += 1;
                                    r.states += index.len() as u64;
                                    r.transitions += transitions;
                                    if put_count > 0 {
                                        r.nontrivial += 1;
                                    }
                                    r.outcome(format!("{}:{}:{}", stringify!($actor), put_count, index.len()));
                                    if capped {
                                        r.cap(format!("{desc}: state cap {cap}"));
                                    }
                                    for (k, w) in viol {
                                        r.violation(&k, w, rv.clone());
                                    }
                                    r.sample(211, || json!({"system": desc, "states": index.len(), "transitions": transitions}));
                                }
                            }
                        }
                    }
                }
            }
        }
    };
    (@ret RegisterMsg, $ret:ident, $reply:expr, $aw:expr) => {
        match $reply {
            RegisterMsg::PutOk(rid) if Some(*rid) == $aw => Some($ret::WriteOk),
            RegisterMsg::GetOk(rid, v) if Some(*rid) == $aw => Some($ret::ReadOk(*v)),
            _ => None,
        }
    };
    (@ret WORegisterMsg, $ret:ident, $reply:expr, $aw:expr) => {
        match $reply {
            WORegisterMsg::PutOk(rid) if Some(*rid) == $aw => Some($ret::WriteOk),
            WORegisterMsg::PutFail(rid) if Some(*rid) == $aw => Some($ret::WriteFail),
            WORegisterMsg::GetOk(rid, v) if Some(*rid) == $aw => Some($ret::ReadOk(Some(*v))),
            _ => None,
        }
    };
}

harness!(run_plain, Srv, RegisterActor, RegisterActorState, RegisterMsg, Register, RegisterOp, RegisterRet, Register('?'), false);
harness!(run_wo, WSrv, WORegisterActor, WORegisterActorState, WORegisterMsg, WORegister, WORegisterOp, WORegisterRet, WORegister(None), true);

pub fn run_c18b(a: &Args, shared: &SharedReport) {
    let th = a.tier == "thorough";
    let mut idx = 0u64;
    run_plain(a, shared, th, &mut idx);
    run_wo(a, shared, th, &mut idx);
}
