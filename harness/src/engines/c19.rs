//! C19 — Explorer HTTP endpoints, the Path API and on-demand checking agree with the model.

use crate::gm::*;
use crate::hooks::fingerprint_of;
use crate::report::*;
use crate::run::*;
use crate::Args;
use serde_json::{json, Value};
use stateright::*;
use std::collections::{BTreeMap, BTreeSet};
use std::io::{Read, Write};
use std::net::TcpStream;
use std::sync::{Arc, Mutex};
use std::time::{Duration, Instant};

fn models(th: bool) -> Vec<(&'static str, GraphModel)> {
    let at = (Expectation::Always, 0xFFu8);
    let g = |succ: Vec<Vec<Option<u8>>>, inits: Vec<u8>, boundary: u8, props: Vec<(Expectation, u8)>| GraphModel { succ, inits, boundary, props, panic_on: None, panic_thread: None };
    let mut v = vec![
        ("two-init-clock", g(vec![vec![Some(1)], vec![Some(0)]], vec![0, 1], 0b11, vec![at.clone(), (Expectation::Sometimes, 0b10)])),
        ("ignored-and-boundary", g(vec![vec![None, Some(1), Some(2)], vec![Some(3), None], vec![Some(3)], vec![Some(0)]], vec![0], 0b1011, vec![(Expectation::Always, 0b0111), (Expectation::Sometimes, 0b1000), (Expectation::Eventually, 0b1000)])),
        ("diamond-dup-edge", g(vec![vec![Some(1), Some(2), Some(1)], vec![Some(3)], vec![Some(3)], vec![]], vec![0], 0b1111, vec![at.clone(), (Expectation::Eventually, 0b0100)])),
        ("self-loop", g(vec![vec![Some(0), Some(1)], vec![Some(1), Some(2)], vec![]], vec![0], 0b111, vec![(Expectation::Sometimes, 0b100), (Expectation::Always, 0b011)])),
    ];
    let _ = th;
    {
        v.push(("wide5", g(vec![vec![Some(1), Some(2), Some(3)], vec![Some(4)], vec![Some(4), None], vec![Some(4)], vec![Some(0)]], vec![0, 4], 0b11111, vec![at.clone(), (Expectation::Sometimes, 0b10000)])));
        v.push(("tree6", g(vec![vec![Some(1), Some(2)], vec![Some(3), Some(4)], vec![Some(5)], vec![], vec![], vec![]], vec![0], 0b111111, vec![at, (Expectation::Eventually, 0b001000)])));
    }
    v
}

fn fp(s: u8) -> u64 {
    fingerprint_of(&s)
}

// ---- A. Path API ---------------------------------------------------------------------------------

fn path_api(shared: &SharedReport, th: bool) {
    let maxlen = if th { 6 } else { 5 };
    for (name, m) in models(th) {
        for init in 0..m.n() as u8 {
            // all action sequences (action indices 0..=3, also out of range) of length <= maxlen
            let mut seqs: Vec<Vec<u8>> = vec![vec![]];
            let mut layer: Vec<Vec<u8>> = vec![vec![]];
            for _ in 0..maxlen {
                let mut next = Vec::new();
                for s in &layer {
                    for a in 0..4u8 {
                        let mut s2 = s.clone();
                        s2.push(a);
                        next.push(s2);
                    }
                }
                seqs.extend(next.iter().cloned());
                layer = next;
            }
            for seq in seqs {
                // own walk
                let mut states = vec![init];
                let mut valid = m.inits.contains(&init);
                if valid {
                    for a in &seq {
                        let s = *states.last().unwrap();
                        match m.succ[s as usize].get(*a as usize) {
                            Some(Some(t)) => states.push(*t),
                            _ => {
                                valid = false;
                                break;
                            }
                        }
                    }
                }
                let got = Path::from_actions(&m, init, seq.iter());
                let mut r = shared.lock().unwrap();
                r.evaluations += 1;
                r.traces += 1;
                r.transitions += seq.len() as u64;
                r.states += 1;
                if valid && !seq.is_empty() {
                    r.nontrivial += 1;
                }
                let rv = json!({"engine": "c19path", "model": m, "init": init, "actions": seq});
                match (&got, valid) {
                    (None, true) => r.violation("c19:path-from-actions-rejects-valid", format!("{name}: from_actions(init {init}, {:?}) is None but the sequence is a real execution {:?}", seq, states), rv.clone()),
                    (Some(_), false) => r.violation("c19:path-from-actions-accepts-invalid", format!("{name}: from_actions(init {init}, {:?}) is Some but this is not an execution", seq), rv.clone()),
                    _ => {}
                }
                if let (Some(p), true) = (got, valid) {
                    let enc = p.encode();
                    let want_enc = states.iter().map(|s| fp(*s).to_string()).collect::<Vec<_>>().join("/");
                    if enc != want_enc {
                        r.violation("c19:path-encode", format!("{name}: encode() = {enc}, fingerprints of the states are {want_enc}"), rv.clone());
                    }
                    if *p.last_state() != *states.last().unwrap() {
                        r.violation("c19:path-last-state", format!("{name}: last_state() = {} expected {}", p.last_state(), states.last().unwrap()), rv.clone());
                    }
                    let v = p.clone().into_vec();
                    let want_v: Vec<(u8, Option<u8>)> = states.iter().enumerate().map(|(i, s)| (*s, seq.get(i).copied())).collect();
                    if v != want_v || p.clone().into_states() != states || p.clone().into_actions() != seq {
                        r.violation("c19:path-accessors", format!("{name}: into_vec() = {:?}, expected {:?}", v, want_v), rv.clone());
                    }
                    // the same execution rebuilt from its fingerprints (what discoveries() and the Explorer do)
                    let fps: Vec<u64> = states.iter().map(|s| fp(*s)).collect();
                    match stateright::verif::path_from_fingerprints(&m, &fps) {
                        None => r.violation("machinery:c19-zero-fingerprint", format!("{name}: a state has fingerprint 0"), rv.clone()),
                        Some(p2) => {
                            r.transitions += states.len() as u64;
                            let v2 = p2.clone().into_vec();
                            let st2: Vec<u8> = v2.iter().map(|(s, _)| *s).collect();
                            if st2 != states {
                                r.violation("c19:path-from-fingerprints-states", format!("{name}: the path rebuilt from the fingerprints of {:?} visits {:?}", states, st2), rv.clone());
                            }
                            for (i, (s, act)) in v2.iter().enumerate() {
                                let ok = match (act, v2.get(i + 1)) {
                                    (Some(a2), Some((nx, _))) => m.succ[*s as usize].get(*a2 as usize).copied().flatten() == Some(*nx),
                                    (None, None) => true,
                                    _ => false,
                                };
                                if !ok {
                                    r.violation("c19:path-from-fingerprints-action", format!("{name}: the path rebuilt from fingerprints is {:?}: step {i} does not name an action that leads from {s} to the next state", v2), rv.clone());
                                    break;
                                }
                            }
                            if p2.encode() != enc {
                                r.violation("c19:path-from-fingerprints-encode", format!("{name}: re-encoding the rebuilt path gives {} instead of {enc}", p2.encode()), rv.clone());
                            }
                        }
                    }
                    r.outcome(format!("path:{}:{}", name, states.len()));
                }
            }
        }
    }
}

// ---- C. on-demand ----------------------------------------------------------------------------------

#[derive(Clone, Debug, PartialEq)]
enum Req {
    Check(u8),
    CheckUnknown,
    Rtc,
}

fn wait_acks(target: usize, ms: u64) -> bool {
    let t0 = Instant::now();
    while stateright::verif::ondemand_acks() < target {
        if t0.elapsed() > Duration::from_millis(ms) {
            return false;
        }
        std::thread::yield_now();
    }
    true
}

fn on_demand(shared: &SharedReport, th: bool, a: &Args) {
    let maxlen = if th { 5 } else { 4 };
    let mut idx = 0u64;
    for (name, m) in models(th) {
        let orc = Oracle::new(&m);
        let n = m.n() as u8;
        // request alphabet: check(s) for every state, an unknown fingerprint, run_to_completion
        let mut alphabet: Vec<Req> = (0..n).map(Req::Check).collect();
        alphabet.push(Req::CheckUnknown);
        alphabet.push(Req::Rtc);
        let mut seqs: Vec<Vec<Req>> = vec![vec![]];
        let mut layer = seqs.clone();
        for _ in 0..maxlen {
            let mut next = Vec::new();
            for s in &layer {
                if s.last() == Some(&Req::Rtc) {
                    continue;
                }
                for x in &alphabet {
                    let mut s2 = s.clone();
                    s2.push(x.clone());
                    next.push(s2);
                }
            }
            seqs.extend(next.iter().cloned());
            layer = next;
        }
        for seq in seqs {
            idx += 1;
            if idx % a.nshards != a.shard {
                continue;
            }
            let rv = json!({"engine": "c19ondemand", "model": m, "requests": format!("{:?}", seq)});
            begin_case(shared, "c19 on-demand", rv.clone(), "e1:c19-join-hang:on_demand");
            // the property set must not let the checker finish by itself
            let mut mm = m.clone();
            mm.props = vec![(Expectation::Always, 0xFF), (Expectation::Sometimes, 0)];
            let rec: Arc<Mutex<Vec<PathV>>> = Arc::new(Mutex::new(Vec::new()));
            let cfg = Config::plain(Strategy::OnDemand);
            let checker = builder(&mm, &cfg, &rec).spawn_on_demand();
            // reference: evaluated E, pending P (generated, not evaluated)
            let mut e_ref: BTreeSet<u8> = BTreeSet::new();
            let mut p_ref: BTreeSet<u8> = mm.inits.iter().copied().filter(|s| mm.inb(*s)).collect();
            let mut alive = !p_ref.is_empty(); // with nothing pending the worker leaves at once
            let mut acks = stateright::verif::ondemand_acks();
            let mut problems: Vec<(String, String)> = Vec::new();
            let mut rtc = false;
            for (k, rq) in seq.iter().enumerate() {
                if !alive {
                    break;
                }
                match rq {
                    Req::Check(s) => checker.check_fingerprint(std::num::NonZeroU64::new(fp(*s)).unwrap()),
                    Req::CheckUnknown => checker.check_fingerprint(std::num::NonZeroU64::new(fingerprint_of(&0xDEADu64)).unwrap()),
                    Req::Rtc => {
                        checker.run_to_completion();
                        rtc = true;
                        break;
                    }
                }
                acks += 1;
                if !wait_acks(acks, 20_000) {
                    problems.push(("c19:on-demand-request-not-handled".into(), format!("request {k} ({:?}) was not handled within 20 s", rq)));
                    break;
                }
                if let Req::Check(s) = rq {
                    if p_ref.remove(s) {
                        e_ref.insert(*s);
                        for t in mm.out_edges(*s) {
                            if !e_ref.contains(&t) {
                                p_ref.insert(t);
                            }
                        }
                        if p_ref.is_empty() {
                            alive = false;
                        }
                    }
                }
                let seen: BTreeSet<u8> = rec.lock().unwrap().iter().map(|p| p.last().unwrap().0).collect();
                if seen != e_ref {
                    problems.push(("c19:on-demand-evaluated-set".into(), format!("after request {k} ({:?}) the evaluated states are {:?}, expected {:?}", rq, seen, e_ref)));
                    break;
                }
                let uniq = checker.unique_state_count();
                if uniq != e_ref.len() + p_ref.len() {
                    problems.push(("c19:on-demand-generated-count".into(), format!("after request {k} ({:?}) unique_state_count = {uniq}, expected {} evaluated + {} pending", rq, e_ref.len(), p_ref.len())));
                    break;
                }
            }
            if !rtc && alive && problems.is_empty() {
                checker.run_to_completion();
            }
            let c = checker.join();
            end_case(shared);
            let seen: Vec<u8> = rec.lock().unwrap().iter().map(|p| p.last().unwrap().0).collect();
            let seen_set: BTreeSet<u8> = seen.iter().copied().collect();
            let want: BTreeSet<u8> = (0..n).filter(|s| orc.reach(*s)).collect();
            if problems.is_empty() {
                if seen_set != want {
                    problems.push(("c19:on-demand-completion-set".into(), format!("after run_to_completion the evaluated states are {:?}, reachable are {:?}", seen_set, want)));
                }
                if seen.len() != seen_set.len() {
                    problems.push(("c19:on-demand-evaluated-twice".into(), format!("a state was evaluated twice: {:?}", seen)));
                }
                if c.unique_state_count() != want.len() || !c.is_done() {
                    problems.push(("c19:on-demand-completion-counts".into(), format!("unique_state_count={} is_done={} expected {} / true", c.unique_state_count(), c.is_done(), want.len())));
                }
            }
            let mut r = shared.lock().unwrap();
            r.evaluations += 1;
            r.traces += 1;
            r.nontrivial += 1;
            r.transitions += seq.len() as u64;
            r.states += seen.len() as u64;
            r.outcome(format!("ondemand:{}:{}:{}", name, seq.len(), e_ref.len()));
            for (k, w) in problems {
                r.violation(&k, format!("{name}: requests {:?}: {w}", seq), rv.clone());
            }
            r.sample(997, || json!({"model": name, "requests": format!("{:?}", seq), "evaluated_after_requests": e_ref, "evaluated_at_end": seen}));
        }
    }
}

// ---- B. HTTP ---------------------------------------------------------------------------------------

fn http(port: u16, method: &str, path: &str) -> Option<(u16, String)> {
    let mut s = TcpStream::connect(("127.0.0.1", port)).ok()?;
    s.set_read_timeout(Some(Duration::from_secs(30))).ok()?;
    let req = format!("{method} {path} HTTP/1.1\r\nHost: localhost\r\nConnection: close\r\nContent-Length: 0\r\n\r\n");
    s.write_all(req.as_bytes()).ok()?;
    let mut buf = Vec::new();
    let _ = s.read_to_end(&mut buf);
    let text = String::from_utf8_lossy(&buf).to_string();
    let (head, body) = text.split_once("\r\n\r\n")?;
    let code: u16 = head.split_whitespace().nth(1)?.parse().ok()?;
    // tiny_http may use chunked encoding
    let body = if head.to_lowercase().contains("transfer-encoding: chunked") {
        let mut out = String::new();
        let mut rest = body;
        loop {
            let (len, tail) = match rest.split_once("\r\n") {
                Some(x) => x,
                None => break,
            };
            let n = usize::from_str_radix(len.trim(), 16).unwrap_or(0);
            if n == 0 || tail.len() < n {
                break;
            }
            out.push_str(&tail[..n]);
            rest = tail[n..].trim_start_matches("\r\n");
        }
        out
    } else {
        body.to_string()
    };
    Some((code, body))
}

fn start_server(m: &GraphModel, base: u16) -> Option<u16> {
    for k in 0..40u16 {
        let port = base + k;
        if TcpStream::connect(("127.0.0.1", port)).is_ok() {
            continue; // somebody else listens there
        }
        let mm = m.clone();
        std::thread::spawn(move || {
            let _ = mm.checker().serve(("127.0.0.1", port));
        });
        let t0 = Instant::now();
        while t0.elapsed() < Duration::from_secs(15) {
            if let Some((200, _)) = http(port, "GET", "/.status") {
                return Some(port);
            }
            std::thread::sleep(Duration::from_millis(20));
        }
    }
    None
}

fn expected_views(m: &GraphModel, last: u8) -> Vec<Value> {
    m.succ[last as usize]
        .iter()
        .enumerate()
        .map(|(a, t)| match t {
            Some(t) => json!({"action": format!("{:?}", a as u8), "state": format!("{:#?}", t), "fingerprint": fp(*t).to_string()}),
            None => json!({"action": format!("{:?}", a as u8)}),
        })
        .collect()
}

fn project(v: &Value) -> Vec<Value> {
    v.as_array()
        .map(|arr| {
            arr.iter()
                .map(|x| {
                    let mut o = serde_json::Map::new();
                    for k in ["action", "state", "fingerprint"] {
                        if let Some(val) = x.get(k) {
                            o.insert(k.to_string(), val.clone());
                        }
                    }
                    Value::Object(o)
                })
                .collect()
        })
        .unwrap_or_default()
}

fn http_part(shared: &SharedReport, th: bool, a: &Args) {
    let maxlen = if th { 6 } else { 5 };
    for (mi, (name, m)) in models(th).into_iter().enumerate() {
        if (mi as u64) % a.nshards != a.shard {
            continue;
        }
        let rvm = json!({"engine": "c19http", "model": m});
        begin_case(shared, "c19 http", rvm.clone(), "machinery:hang-http");
        let port = match start_server(&m, 38000 + (std::process::id() % 500) as u16 * 40) {
            Some(p) => p,
            None => {
                end_case(shared);
                let mut r = shared.lock().unwrap();
                r.violation("machinery:explorer-did-not-start", format!("{name}: could not start serve() on a loopback port"), rvm);
                continue;
            }
        };
        end_case(shared);
        let orc = Oracle::new(&m);
        let mut problems: Vec<(String, String, Value)> = Vec::new();
        let mut count = 0u64;
        // init states
        if let Some((code, body)) = http(port, "GET", "/.states") {
            let v: Value = serde_json::from_str(&body).unwrap_or(Value::Null);
            let want: Vec<Value> = m.inits.iter().map(|s| json!({"state": format!("{:#?}", s), "fingerprint": fp(*s).to_string()})).collect();
            if code != 200 || project(&v) != want {
                problems.push(("c19:http-init-states".into(), format!("GET /.states -> {code} {body}, expected {:?}", want), json!({})));
            }
        }
        // every execution (also leaving the boundary: the explorer follows the model) of length <= maxlen
        let mut paths: Vec<Vec<u8>> = m.inits.iter().map(|s| vec![*s]).collect();
        let mut all_paths = paths.clone();
        for _ in 1..maxlen {
            let mut next = Vec::new();
            for p in &paths {
                let last = *p.last().unwrap();
                let mut seen = BTreeSet::new();
                for t in m.succ[last as usize].iter().flatten() {
                    if seen.insert(*t) {
                        let mut p2 = p.clone();
                        p2.push(*t);
                        next.push(p2);
                    }
                }
            }
            all_paths.extend(next.iter().cloned());
            paths = next;
        }
        let unrelated = fingerprint_of(&0xBEEFu64).to_string();
        for p in &all_paths {
            let url = format!("/.states/{}", p.iter().map(|s| fp(*s).to_string()).collect::<Vec<_>>().join("/"));
            count += 1;
            begin_case(shared, "c19 http get", json!({"url": url}), "machinery:hang-http");
            let resp = http(port, "GET", &url);
            end_case(shared);
            match resp {
                None => problems.push(("c19:http-no-response".into(), format!("GET {url}: no response"), json!({"path": p}))),
                Some((code, body)) => {
                    let v: Value = serde_json::from_str(&body).unwrap_or(Value::Null);
                    let want = expected_views(&m, *p.last().unwrap());
                    if code != 200 || project(&v) != want {
                        problems.push(("c19:http-states-differ-from-model".into(), format!("GET {url} (states {:?}) -> {code} {}, the model says {:?}", p, project(&v).iter().map(|x| x.to_string()).collect::<Vec<_>>().join(","), want), json!({"path": p})));
                    }
                }
            }
            // one-token corruptions denote no execution
            for pos in 0..p.len() {
                let mut bad: Vec<String> = Vec::new();
                // a state that is not a successor at this position (or not an init state)
                for s in 0..m.n() as u8 {
                    let ok = if pos == 0 { m.inits.contains(&s) } else { m.succ[p[pos - 1] as usize].contains(&Some(s)) };
                    if !ok {
                        bad.push(fp(s).to_string());
                        break;
                    }
                }
                bad.push(unrelated.clone());
                if pos == p.len() - 1 {
                    bad.push("0".into());
                    bad.push("abc".into());
                    bad.push("".into());
                }
                for b in bad {
                    let mut toks: Vec<String> = p.iter().map(|s| fp(*s).to_string()).collect();
                    toks[pos] = b.clone();
                    if b.is_empty() && pos == p.len() - 1 {
                        // an empty segment in the middle: a/b//c
                        toks.insert(pos, "".into());
                        toks[pos + 1] = fp(p[pos]).to_string();
                    }
                    let url = format!("/.states/{}", toks.join("/"));
                    count += 1;
                    match http(port, "GET", &url) {
                        Some((404, _)) => {}
                        Some((code, body)) => problems.push(("c19:http-invalid-path-not-404".into(), format!("GET {url} denotes no execution but -> {code} {}", &body[..body.len().min(200)]), json!({"url": url}))),
                        None => problems.push(("c19:http-no-response".into(), format!("GET {url}: no response"), json!({"url": url}))),
                    }
                }
            }
            if problems.len() > 5 {
                break;
            }
        }
        // run to completion and poll the status
        let _ = http(port, "POST", "/.runtocompletion");
        let t0 = Instant::now();
        let mut status = Value::Null;
        while t0.elapsed() < Duration::from_secs(60) {
            if let Some((200, body)) = http(port, "GET", "/.status") {
                status = serde_json::from_str(&body).unwrap_or(Value::Null);
                if status["done"] == json!(true) {
                    break;
                }
            }
            std::thread::sleep(Duration::from_millis(10));
        }
        count += 1;
        if status["done"] != json!(true) {
            problems.push(("c19:http-never-done".into(), format!("status after run to completion: {status}"), json!({})));
        } else {
            // all properties discovered => early stop is allowed; otherwise counts are exact
            let props = status["properties"].as_array().cloned().unwrap_or_default();
            let all_found = props.iter().all(|p| !p[2].is_null());
            if !all_found && status["unique_state_count"] != json!(orc.size()) {
                problems.push(("c19:http-status-counts".into(), format!("status reports unique_state_count {} but {} states are reachable", status["unique_state_count"], orc.size()), json!({})));
            }
            let by_fp: BTreeMap<String, u8> = (0..m.n() as u8).map(|s| (fp(s).to_string(), s)).collect();
            for (k, p) in props.iter().enumerate() {
                if let Some(enc) = p[2].as_str() {
                    let states: Option<Vec<u8>> = enc.split('/').map(|t| by_fp.get(t).copied()).collect();
                    let ok = match states {
                        None => false,
                        Some(st) => {
                            // rebuild the actions: any edge between consecutive states
                            let mut path: PathV = Vec::new();
                            let mut good = true;
                            for (i, s) in st.iter().enumerate() {
                                if i + 1 < st.len() {
                                    match m.succ[*s as usize].iter().position(|t| *t == Some(st[i + 1])) {
                                        Some(a) => path.push((*s, Some(a as u8))),
                                        None => good = false,
                                    }
                                } else {
                                    path.push((*s, None));
                                }
                            }
                            let mut obs_disc = Disc::new();
                            obs_disc.insert(NAMES[k].to_string(), path);
                            let obs = Obs { visited: vec![], unique: 0, count: 0, max_depth: 0, is_done: true, disc: Ok(obs_disc), assert_ok: true, join_panicked: false, class: [(NAMES[k].to_string(), if matches!(m.props[k].0, Expectation::Sometimes) { "example".to_string() } else { "counterexample".to_string() })].into_iter().collect(), per_prop: Vec::new() };
                            good && crate::engines::e1::o_c03(&m, &orc, &Config::plain(Strategy::OnDemand), &obs).is_empty()
                        }
                    };
                    if !ok {
                        problems.push(("c19:http-status-path-not-a-witness".into(), format!("status property {k} path {enc} does not decode to a genuine witness"), json!({})));
                    }
                } else {
                    // no discovery reported: then none must exist (always/sometimes; after completion)
                    let (e, mask) = &m.props[k];
                    let exists = match e {
                        Expectation::Always => orc.exists_not(*mask),
                        Expectation::Sometimes => orc.exists_in(*mask),
                        Expectation::Eventually => false,
                    };
                    if exists {
                        problems.push(("c19:http-status-misses-discovery".into(), format!("status reports no discovery for property {k} although a witness is reachable"), json!({})));
                    }
                }
            }
        }
        let mut r = shared.lock().unwrap();
        r.evaluations += count;
        r.nontrivial += count;
        r.traces += count;
        r.transitions += count;
        r.states += all_paths.len() as u64;
        r.outcome(format!("http:{}:{}", name, all_paths.len()));
        for (k, w, rv) in problems {
            r.violation(&k, format!("{name}: {w}"), json!({"engine": "c19http", "model": m, "detail": rv}));
        }
        r.sample(1, || json!({"model": name, "port": port, "requests": count, "executions": all_paths.len(), "final_status": status}));
    }
}

pub fn run_c19(a: &Args, shared: &SharedReport) {
    let th = a.tier == "thorough";
    {
        let mut r = shared.lock().unwrap();
        r.rule = "Path API: every action sequence (valid and invalid) up to the length bound from every state; on-demand: every request sequence over {check(each state), check(unknown), run_to_completion} up to the length bound; HTTP: every execution up to the length bound and every one-token corruption of it against a live serve() on loopback, then run-to-completion and status; non-trivial = the sequence/request list is non-empty".into();
        r.bounds = json!({"models": 6, "path_actions": if th {"<=6"} else {"<=5"}, "on_demand_requests": if th {"<=5"} else {"<=4"}, "http_path_length": if th {"<=6"} else {"<=5"}});
    }
    if a.shard == 0 {
        path_api(shared, th);
    }
    on_demand(shared, th, a);
    http_part(shared, th, a);
}

pub fn replay(v: &Value) -> Vec<(String, String)> {
    println!("re-run the check; the failing case is {}", v);
    vec![]
}
