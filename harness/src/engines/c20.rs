//! C20 — vector clocks and dense maps: algebraic laws by exhaustive enumeration.

use crate::engines::e4::log_of;
use crate::report::*;
use crate::Args;
use serde_json::json;
use stateright::actor::Id;
use stateright::util::*;
use stateright::*;
use std::cmp::Ordering;
use std::panic::{catch_unwind, AssertUnwindSafe};

fn clocks(max_len: usize, base: u32) -> Vec<Vec<u32>> {
    let mut out = Vec::new();
    for len in 0..=max_len {
        for code in 0..base.pow(len as u32) {
            out.push((0..len).map(|i| code / base.pow(i as u32) % base).collect());
        }
    }
    out
}

fn trim(v: &[u32]) -> Vec<u32> {
    let mut t = v.to_vec();
    while t.last() == Some(&0) {
        t.pop();
    }
    t
}
fn at(v: &[u32], i: usize) -> u32 {
    v.get(i).copied().unwrap_or(0)
}
/// reference order on padded vectors
fn ref_cmp(a: &[u32], b: &[u32]) -> Option<Ordering> {
    let n = a.len().max(b.len());
    let le = (0..n).all(|i| at(a, i) <= at(b, i));
    let ge = (0..n).all(|i| at(a, i) >= at(b, i));
    match (le, ge) {
        (true, true) => Some(Ordering::Equal),
        (true, false) => Some(Ordering::Less),
        (false, true) => Some(Ordering::Greater),
        (false, false) => None,
    }
}

pub fn run_c20(a: &Args, shared: &SharedReport) {
    let th = a.tier == "thorough";
    {
        let mut r = shared.lock().unwrap();
        r.rule = "every vector clock within the bound, all pairs and all triples; every dense map construction order, insert position and rewrite plan within the bound; non-trivial = the clocks involved are not all equal".into();
        r.bounds = json!({"clocks": if th {"length <=7 components in {0,1,2} (all pairs; triples over length <=5)"} else {"length <=5 components in {0,1,2} (all pairs; triples over length <=4)"}, "dense_maps": "<=9 entries: every permutation of <=5 pairs (3 orders beyond), every gap/duplicate, every plan"});
    }
    let cs = clocks(if th { 7 } else { 5 }, 3);
    let real: Vec<VectorClock> = cs.iter().map(|v| VectorClock::from(v.clone())).collect();
    let n = cs.len();
    // pairs
    for i in 0..n {
        if (i as u64) % a.nshards != a.shard {
            continue;
        }
        let mut r = shared.lock().unwrap();
        r.states += 1;
        for j in 0..n {
            let (x, y) = (&cs[i], &cs[j]);
            r.evaluations += 1;
            r.transitions += 1;
            r.traces += 1;
            let want = ref_cmp(x, y);
            let got = real[i].partial_cmp(&real[j]);
            let eq = real[i] == real[j];
            let same = trim(x) == trim(y);
            if !same {
                r.nontrivial += 1;
            }
            let rv = json!({"engine": "c20", "a": x, "b": y});
            if got != want {
                r.violation("c20:clock-partial-cmp", format!("{:?}.partial_cmp({:?}) = {:?}, component-wise order is {:?}", x, y, got, want), rv.clone());
            }
            if eq != same {
                r.violation("c20:clock-eq", format!("{:?} == {:?} is {eq}, equality up to trailing zeros is {same}", x, y), rv.clone());
            }
            if eq != (got == Some(Ordering::Equal)) {
                r.violation("c20:clock-eq-vs-cmp", format!("{:?} vs {:?}: == is {eq} but partial_cmp is {:?}", x, y, got), rv.clone());
            }
            // antisymmetry
            let back = real[j].partial_cmp(&real[i]);
            if got.map(|o| o.reverse()) != back {
                r.violation("c20:clock-antisymmetry", format!("{:?} vs {:?}: {:?} one way, {:?} the other", x, y, got, back), rv.clone());
            }
            // hash
            let same_log = log_of(&real[i]) == log_of(&real[j]);
            if same_log != same {
                r.violation(if same { "c20:clock-equal-hash-differently" } else { "c20:clock-distinct-hash-equal" }, format!("{:?} vs {:?}: equal={same} but identical hasher stream={same_log}", x, y), rv.clone());
            }
            // merge_max is the least upper bound
            let m = VectorClock::merge_max(&real[i], &real[j]);
            let len = x.len().max(y.len());
            let want_m: Vec<u32> = (0..len).map(|k| at(x, k).max(at(y, k))).collect();
            if m != VectorClock::from(want_m.clone()) {
                r.violation("c20:clock-merge", format!("merge_max({:?},{:?}) = {}, component-wise maximum is {:?}", x, y, m, want_m), rv.clone());
            }
            if !(real[i] <= m && real[j] <= m) {
                r.violation("c20:clock-merge-not-upper-bound", format!("merge_max({:?},{:?}) = {} is not >= both", x, y, m), rv.clone());
            }
            r.outcome(format!("cmp:{:?}:eq{}", want, same));
        }
        // least: below every other upper bound in the domain
        for j in 0..n {
            let m = VectorClock::merge_max(&real[i], &real[j]);
            for u in 0..n {
                if real[i] <= real[u] && real[j] <= real[u] {
                    r.transitions += 1;
                    if !(m <= real[u]) {
                        r.violation("c20:clock-merge-not-least", format!("merge_max({:?},{:?}) = {} is not below the upper bound {:?}", cs[i], cs[j], m, cs[u]), json!({"engine": "c20", "a": cs[i], "b": cs[j], "u": cs[u]}));
                    }
                }
            }
        }
        // reflexive, increment
        if real[i].partial_cmp(&real[i]) != Some(Ordering::Equal) {
            r.violation("c20:clock-reflexive", format!("{:?} is not equal to itself", cs[i]), json!({"engine": "c20", "a": cs[i]}));
        }
        for k in 0..=cs[i].len() + 1 {
            let inc = real[i].clone().incremented(k);
            r.evaluations += 1;
            if !(inc > real[i]) || inc == real[i] {
                r.violation("c20:clock-increment", format!("{:?}.incremented({k}) = {} is not strictly greater", cs[i], inc), json!({"engine": "c20", "a": cs[i], "k": k}));
            }
            let mut want = cs[i].clone();
            if want.len() <= k {
                want.resize(k + 1, 0);
            }
            want[k] += 1;
            if inc != VectorClock::from(want.clone()) {
                r.violation("c20:clock-increment-value", format!("{:?}.incremented({k}) = {}, expected {:?}", cs[i], inc, want), json!({"engine": "c20", "a": cs[i], "k": k}));
            }
        }
    }
    // transitivity over all triples (length <= 3 domain)
    let small: Vec<usize> = (0..n).filter(|i| cs[*i].len() <= (if th { 5 } else { 4 })).collect();
    for (ii, &i) in small.iter().enumerate() {
        if (ii as u64) % a.nshards != a.shard {
            continue;
        }
        let mut bad = Vec::new();
        let mut cnt = 0u64;
        for &j in &small {
            let ij = real[i].partial_cmp(&real[j]);
            if !matches!(ij, Some(Ordering::Less) | Some(Ordering::Equal)) {
                continue;
            }
            for &k in &small {
                cnt += 1;
                let jk = real[j].partial_cmp(&real[k]);
                if matches!(jk, Some(Ordering::Less) | Some(Ordering::Equal)) {
                    let ik = real[i].partial_cmp(&real[k]);
                    let strict = ij == Some(Ordering::Less) || jk == Some(Ordering::Less);
                    let ok = if strict { ik == Some(Ordering::Less) } else { ik == Some(Ordering::Equal) };
                    if !ok {
                        bad.push(format!("{:?} <= {:?} <= {:?} but first vs last is {:?}", cs[i], cs[j], cs[k], ik));
                    }
                }
            }
        }
        let mut r = shared.lock().unwrap();
        r.evaluations += cnt;
        r.nontrivial += cnt;
        r.transitions += cnt;
        for b in bad {
            r.violation("c20:clock-transitivity", b, json!({"engine": "c20"}));
        }
    }
    if a.shard == 0 {
        dense_maps(shared);
    }
}

fn perms(v: &[usize]) -> Vec<Vec<usize>> {
    if v.len() <= 1 {
        return vec![v.to_vec()];
    }
    let mut out = Vec::new();
    for i in 0..v.len() {
        let mut rest = v.to_vec();
        let x = rest.remove(i);
        for mut p in perms(&rest) {
            p.insert(0, x);
            out.push(p);
        }
    }
    out
}

fn dense_maps(shared: &SharedReport) {
    let mut r = shared.lock().unwrap();
    for n in 0..=9usize {
        let keys: Vec<usize> = (0..n).collect();
        let want: Vec<u8> = (0..n).map(|k| 10 + k as u8).collect();
        // all orders up to 5 keys; beyond that the identity, the reverse and a rotation
        let orders = |keys: &Vec<usize>| -> Vec<Vec<usize>> {
            if keys.len() <= 5 {
                perms(keys)
            } else {
                let mut rev = keys.clone();
                rev.reverse();
                let mut rot = keys.clone();
                rot.rotate_left(2);
                vec![keys.clone(), rev, rot]
            }
        };
        for p in orders(&keys) {
            r.evaluations += 1;
            r.nontrivial += 1;
            r.states += 1;
            r.transitions += n as u64;
            r.traces += 1;
            let built = catch_unwind(AssertUnwindSafe(|| p.iter().map(|k| (Id::from(*k), 10 + *k as u8)).collect::<DenseNatMap<Id, u8>>()));
            match built {
                Err(_) => r.violation("c20:densemap-from-pairs-panics", format!("building from pairs in key order {:?} panicked", p), json!({"engine": "c20dm", "order": p})),
                Ok(m) => {
                    let got: Vec<u8> = m.values().copied().collect();
                    if got != want || m.len() != n {
                        r.violation("c20:densemap-order-dependent", format!("building from pairs in key order {:?} gives values {:?}", p, got), json!({"engine": "c20dm", "order": p}));
                    }
                    for k in 0..n + 1 {
                        if m.get(Id::from(k)).copied() != want.get(k).copied() {
                            r.violation("c20:densemap-get", format!("get({k}) = {:?}", m.get(Id::from(k))), json!({"engine": "c20dm", "order": p}));
                        }
                    }
                    let it: Vec<(usize, u8)> = m.iter().map(|(k, v)| (usize::from(k), *v)).collect();
                    if it != want.iter().copied().enumerate().collect::<Vec<_>>() {
                        r.violation("c20:densemap-iter", format!("iter() = {:?}", it), json!({"engine": "c20dm", "order": p}));
                    }
                    for k in 0..n {
                        if m[Id::from(k)] != want[k] {
                            r.violation("c20:densemap-index", format!("index {k}"), json!({"engine": "c20dm", "order": p}));
                        }
                    }
                    // insert at every position
                    for k in 0..=n + 1 {
                        let mut m2 = m.clone();
                        let res = catch_unwind(AssertUnwindSafe(|| {
                            let old = m2.insert(Id::from(k), 99);
                            (old, m2)
                        }));
                        r.evaluations += 1;
                        match res {
                            Err(_) => {
                                if k <= n {
                                    r.violation("c20:densemap-insert-panics", format!("insert at {k} into a map of {n} panicked"), json!({"engine": "c20dm", "n": n, "k": k}));
                                }
                            }
                            Ok((old, m2)) => {
                                if k > n {
                                    r.violation("c20:densemap-insert-gap-accepted", format!("insert at {k} into a map of {n} was accepted"), json!({"engine": "c20dm", "n": n, "k": k}));
                                } else {
                                    let mut w = want.clone();
                                    let want_old = if k < n { Some(w[k]) } else { None };
                                    if k < n {
                                        w[k] = 99
                                    } else {
                                        w.push(99)
                                    }
                                    if old != want_old || m2.values().copied().collect::<Vec<_>>() != w {
                                        r.violation("c20:densemap-insert", format!("insert at {k} into {:?}: returned {:?}, map {:?}", want, old, m2.values().collect::<Vec<_>>()), json!({"engine": "c20dm", "n": n, "k": k}));
                                    }
                                }
                            }
                        }
                    }
                    // rewrite: value of key k moves to key plan(k) (values are ids too)
                    for q in orders(&keys) {
                        let plan = RewritePlan::<Id, _>::from_values_to_sort(&q);
                        let mi: DenseNatMap<Id, Id> = DenseNatMap::from((0..n).map(|k| Id::from((k + 1) % n.max(1))).collect::<Vec<Id>>());
                        let got = match catch_unwind(AssertUnwindSafe(|| mi.rewrite(&plan))) {
                            Ok(g) => g,
                            Err(_) => {
                                r.violation("c20:densemap-rewrite-panics", format!("rewriting a map of {n} entries under the plan of {:?} panicked", q), json!({"engine": "c20dm", "plan": q}));
                                continue;
                            }
                        };
                        r.evaluations += 1;
                        for k in 0..n {
                            let nk = plan.rewrite(&Id::from(k));
                            let wv = plan.rewrite(&Id::from((k + 1) % n));
                            if got.get(nk) != Some(&wv) {
                                r.violation("c20:densemap-rewrite", format!("plan {:?}: value of key {k} did not move to key {:?} rewritten", q, nk), json!({"engine": "c20dm", "plan": q}));
                            }
                        }
                    }
                }
            }
        }
        // gaps and duplicates are rejected
        if n >= 1 {
            for missing in 0..n {
                for extra in [n, n + 1] {
                    let mut ks: Vec<usize> = (0..n).filter(|k| *k != missing).collect();
                    ks.push(extra);
                    if ks.iter().copied().collect::<std::collections::BTreeSet<_>>() == (0..n).collect() {
                        continue;
                    }
                    for p in orders(&ks).into_iter().take(6) {
                        r.evaluations += 1;
                        let res = catch_unwind(AssertUnwindSafe(|| p.iter().map(|k| (Id::from(*k), 1u8)).collect::<DenseNatMap<Id, u8>>()));
                        if res.is_ok() {
                            r.violation("c20:densemap-gap-accepted", format!("keys {:?} (a gap) were accepted", p), json!({"engine": "c20dm", "keys": p}));
                        }
                    }
                }
                let mut ks: Vec<usize> = (0..n).collect();
                ks.push(missing);
                for p in orders(&ks).into_iter().take(6) {
                    r.evaluations += 1;
                    let res = catch_unwind(AssertUnwindSafe(|| p.iter().map(|k| (Id::from(*k), 1u8)).collect::<DenseNatMap<Id, u8>>()));
                    if res.is_ok() {
                        r.violation("c20:densemap-duplicate-accepted", format!("keys {:?} (a duplicate) were accepted", p), json!({"engine": "c20dm", "keys": p}));
                    }
                }
            }
        }
    }
    r.sample(1, || json!({"dense_maps": "all permutations of <=5 pairs (3 orders for 6..9), inserts at every position, all plans"}));
    r.outcome("densemaps".into());
}
