//! E1 — all small finite models against the real checkers (C01 C02 C03 C11 C12 C13).

use crate::gm::*;
use crate::report::*;
use crate::run::*;
use crate::Args;
use serde_json::{json, Value};
use stateright::Expectation;
use std::collections::{BTreeMap, BTreeSet};

type V = (String, String);

fn always_true() -> (Expectation, u8) {
    (Expectation::Always, 0xFF)
}

// ------------------------------------------------------------------------------------------------
// Oracles
// ------------------------------------------------------------------------------------------------

fn last_states(obs: &Obs) -> Vec<u8> {
    obs.visited.iter().map(|p| p.last().unwrap().0).collect()
}

/// Under finish=All the run goes on for as long as some property has no discovery. This is true if
/// the oracle knows that at least one property can never be discovered.
fn never_all_discovered(m: &GraphModel, orc: &Oracle) -> bool {
    m.props.iter().any(|(e, mask)| match e {
        Expectation::Always => !orc.exists_not(*mask),
        Expectation::Sometimes => !orc.exists_in(*mask),
        Expectation::Eventually => false,
    })
}

fn unrestricted(cfg: &Config) -> bool {
    cfg.finish == Finish::All
        && cfg.target_states.is_none()
        && cfg.target_depth.is_none()
        && !cfg.strategy.is_sim()
}

/// C01: the evaluated states are exactly R, once each, each with a real path.
pub fn o_c01(m: &GraphModel, orc: &Oracle, cfg: &Config, obs: &Obs) -> Vec<V> {
    let mut v = Vec::new();
    let s = cfg.strategy.short();
    if obs.join_panicked {
        v.push((format!("e1:c01-join-panicked:{s}"), "join() panicked".into()));
        return v;
    }
    for p in &obs.visited {
        if let Err(e) = validate_execution(m, p) {
            v.push((
                format!("e1:c01-visitor-path-not-real:{s}"),
                format!("visitor was shown {:?}: {e}", p),
            ));
        }
    }
    let mut seen: BTreeMap<u8, usize> = BTreeMap::new();
    for l in last_states(obs) {
        *seen.entry(l).or_insert(0) += 1;
    }
    for st in 0..m.n() as u8 {
        let c = seen.get(&st).copied().unwrap_or(0);
        if orc.reach(st) && c == 0 {
            v.push((
                format!("e1:c01-state-missed:{s}"),
                format!("reachable in-boundary state {st} was never evaluated"),
            ));
        }
        if orc.reach(st) && c > 1 {
            v.push((
                format!("e1:c01-state-twice:{s}"),
                format!("state {st} was evaluated {c} times"),
            ));
        }
        if !orc.reach(st) && c > 0 {
            v.push((
                format!("e1:c01-state-extra:{s}"),
                format!("state {st} is not reachable inside the boundary but was evaluated"),
            ));
        }
    }
    if obs.unique != orc.size() {
        v.push((
            format!("e1:c01-unique-count:{s}"),
            format!("unique_state_count={} but |R|={}", obs.unique, orc.size()),
        ));
    }
    if obs.count < orc.size() {
        v.push((
            format!("e1:c01-state-count:{s}"),
            format!("state_count={} < |R|={}", obs.count, orc.size()),
        ));
    }
    if !obs.is_done {
        v.push((format!("e1:c01-not-done:{s}"), "is_done() false after join".into()));
    }
    v
}

fn disc_index(name: &str) -> usize {
    NAMES.iter().position(|n| *n == name).unwrap()
}

/// C02: always/sometimes verdicts are exact after a completed run.
pub fn o_c02(m: &GraphModel, orc: &Oracle, cfg: &Config, obs: &Obs) -> Vec<V> {
    let mut v = Vec::new();
    let s = cfg.strategy.short();
    if obs.join_panicked {
        v.push((format!("e1:c02-join-panicked:{s}"), "join() panicked".into()));
        return v;
    }
    let disc = match &obs.disc {
        Ok(d) => d,
        Err(e) => {
            v.push((format!("e1:c02-discoveries-panicked:{s}"), e.clone()));
            return v;
        }
    };
    let mut expect_assert = true;
    for (k, (e, mask)) in m.props.iter().enumerate() {
        let found = disc.contains_key(NAMES[k]);
        match e {
            Expectation::Always => {
                let exists = orc.exists_not(*mask);
                if exists {
                    expect_assert = false;
                }
                if found != exists {
                    v.push((
                        format!("e1:c02-always-{}:{s}", if found { "false-cex" } else { "missed" }),
                        format!("always p{k} mask={mask:#05b}: counterexample reported={found}, violating reachable state exists={exists}"),
                    ));
                }
            }
            Expectation::Sometimes => {
                let exists = orc.exists_in(*mask);
                if !exists {
                    expect_assert = false;
                }
                if found != exists {
                    v.push((
                        format!("e1:c02-sometimes-{}:{s}", if found { "false-example" } else { "missed" }),
                        format!("sometimes p{k} mask={mask:#05b}: example reported={found}, satisfying reachable state exists={exists}"),
                    ));
                }
            }
            Expectation::Eventually => {
                if found {
                    expect_assert = false;
                }
            }
        }
    }
    if obs.assert_ok != expect_assert {
        v.push((
            format!("e1:c02-assert-properties:{s}"),
            format!("assert_properties() succeeded={} expected={}", obs.assert_ok, expect_assert),
        ));
    }
    if !obs.is_done {
        v.push((format!("e1:c02-not-done:{s}"), "is_done() false after join".into()));
    }
    // the per-property helpers consult the same discoveries (and is_done)
    for (k, (some, any_ok, no_ok)) in obs.per_prop.iter().enumerate() {
        let found = disc.contains_key(NAMES[k]);
        if *some != found {
            v.push((format!("e1:c02-discovery-lookup:{s}"), format!("discovery(p{k}).is_some()={some} but discoveries() {} p{k}", if found { "contains" } else { "does not contain" })));
        }
        if *any_ok != found {
            v.push((format!("e1:c02-assert-any-discovery:{s}"), format!("assert_any_discovery(p{k}) returned={any_ok} although a discovery for p{k} exists={found}")));
        }
        if *no_ok != (!found && obs.is_done) {
            v.push((format!("e1:c02-assert-no-discovery:{s}"), format!("assert_no_discovery(p{k}) returned={no_ok}; discovery exists={found}, is_done={}", obs.is_done)));
        }
    }
    v
}

/// C03: every reported discovery is a genuine witness path.
pub fn o_c03(m: &GraphModel, _orc: &Oracle, cfg: &Config, obs: &Obs) -> Vec<V> {
    let mut v = Vec::new();
    let s = cfg.strategy.short();
    if obs.join_panicked {
        return v;
    }
    let disc = match &obs.disc {
        Ok(d) => d,
        Err(e) => {
            v.push((
                format!("e1:c03-discoveries-panicked:{s}"),
                format!("discoveries() panicked: {e}"),
            ));
            return v;
        }
    };
    for (name, path) in disc {
        let k = disc_index(name);
        if k >= m.props.len() {
            v.push((format!("e1:c03-unknown-property:{s}"), name.clone()));
            continue;
        }
        let (e, mask) = &m.props[k];
        let en = exp_name(e);
        if let Err(err) = validate_execution(m, path) {
            v.push((
                format!("e1:c03-{en}-not-an-execution:{s}"),
                format!("{en} p{k}: path {:?}: {err}", path),
            ));
            continue;
        }
        let holds = |st: u8| (mask >> st) & 1 == 1;
        let last = path.last().unwrap().0;
        match e {
            Expectation::Always => {
                if holds(last) {
                    v.push((
                        format!("e1:c03-always-last-state-satisfies:{s}"),
                        format!("always p{k} mask={mask:#05b}: reported path {:?} ends in a state that satisfies it", path),
                    ));
                }
            }
            Expectation::Sometimes => {
                if !holds(last) {
                    v.push((
                        format!("e1:c03-sometimes-last-state-violates:{s}"),
                        format!("sometimes p{k} mask={mask:#05b}: reported path {:?} ends in a state that does not satisfy it", path),
                    ));
                }
            }
            Expectation::Eventually => {
                if let Some((st, _)) = path.iter().find(|(st, _)| holds(*st)) {
                    v.push((
                        format!("e1:c03-eventually-path-satisfies:{s}"),
                        format!("eventually p{k} mask={mask:#05b}: reported counterexample {:?} contains state {st} which satisfies the condition", path),
                    ));
                }
                let dead_end = m.out_edges(last).is_empty();
                let rep = |x: u8| if cfg.strategy.is_sym() { swap12(&x) } else { x };
                let closes_cycle = cfg.strategy.is_sim()
                    && path[..path.len() - 1].iter().any(|(st, _)| rep(*st) == rep(last));
                if !dead_end && !closes_cycle {
                    v.push((
                        format!("e1:c03-eventually-path-extendable:{s}"),
                        format!("eventually p{k}: reported counterexample {:?} can be extended inside the boundary (successors of {last}: {:?}) and closes no cycle", path, m.out_edges(last)),
                    ));
                }
            }
        }
        let class = obs.class.get(name).map(|s| s.as_str()).unwrap_or("?");
        let want = if matches!(e, Expectation::Sometimes) { "example" } else { "counterexample" };
        if class != want {
            v.push((
                format!("e1:c03-classification:{s}"),
                format!("{en} p{k} classified as {class}"),
            ));
        }
    }
    v
}

/// C11: eventually — no false alarm anywhere; exact on forests for exhaustive strategies.
pub fn o_c11(m: &GraphModel, orc: &Oracle, cfg: &Config, obs: &Obs) -> Vec<V> {
    let mut v = Vec::new();
    let s = cfg.strategy.short();
    if obs.join_panicked {
        return v;
    }
    let disc = match &obs.disc {
        Ok(d) => d,
        Err(e) => {
            v.push((
                format!("e1:c11-discoveries-panicked:{s}"),
                format!("discoveries() panicked: {e}"),
            ));
            return v;
        }
    };
    for (k, (e, mask)) in m.props.iter().enumerate() {
        if !matches!(e, Expectation::Eventually) {
            continue;
        }
        let found = disc.contains_key(NAMES[k]);
        let exists = orc.maximal_avoiding_path(m, *mask);
        if found && !exists {
            v.push((
                format!("e1:c11-false-alarm:{s}"),
                format!("eventually p{k} mask={mask:#05b}: counterexample {:?} reported but every maximal in-boundary path satisfies the condition", disc.get(NAMES[k])),
            ));
        }
        if orc.forest && unrestricted(cfg) && !cfg.strategy.is_sym() && !found && exists {
            v.push((
                format!("e1:c11-missed-on-forest:{s}"),
                format!("eventually p{k} mask={mask:#05b}: forest-shaped model has a maximal path avoiding the condition but no counterexample was reported"),
            ));
        }
    }
    v
}

/// C13: single-threaded BFS evaluates by depth and reports shortest witnesses.
pub fn o_c13(m: &GraphModel, orc: &Oracle, cfg: &Config, obs: &Obs) -> Vec<V> {
    let mut v = Vec::new();
    if cfg.strategy != Strategy::Bfs || cfg.threads != 1 || obs.join_panicked {
        return v;
    }
    let mut prev = 0;
    for p in &obs.visited {
        if p.len() < prev {
            v.push((
                "e1:c13-order:bfs".into(),
                format!("a state at depth {} was evaluated after one at depth {}", p.len(), prev),
            ));
            break;
        }
        prev = p.len();
    }
    // additionally the evaluated depth must be the true distance
    for p in &obs.visited {
        let l = p.last().unwrap().0;
        if let Some(d) = orc.dist[l as usize] {
            if p.len() as u32 - 1 != d {
                v.push((
                    "e1:c13-visit-depth:bfs".into(),
                    format!("state {l} evaluated through a path of {} transitions, distance is {d}", p.len() - 1),
                ));
            }
        }
    }
    if let Ok(disc) = &obs.disc {
        for (name, path) in disc {
            let k = disc_index(name);
            let (e, mask) = &m.props[k];
            let sel = match e {
                Expectation::Always => !*mask,
                Expectation::Sometimes => *mask,
                Expectation::Eventually => continue,
            };
            let want = orc.min_dist(sel & orc.r);
            let got = path.len() as u32 - 1;
            if Some(got) != want {
                v.push((
                    "e1:c13-not-shortest:bfs".into(),
                    format!("{} p{k}: reported path has {got} transitions, shortest witness has {:?}", exp_name(e), want),
                ));
            }
        }
    }
    v
}

/// C12 (ii)-(iv): early stop only when the finish condition holds; target count; depth limit.
/// `full` is the observation of the unrestricted single-threaded run of the same strategy.
pub fn o_c12(m: &GraphModel, orc: &Oracle, cfg: &Config, obs: &Obs, full: Option<&Obs>) -> Vec<V> {
    let mut v = Vec::new();
    let s = cfg.strategy.short();
    if obs.join_panicked {
        v.push((format!("e1:c12-join-panicked:{s}"), "join() panicked".into()));
        return v;
    }
    let visited: BTreeSet<u8> = last_states(obs).into_iter().collect();
    // (ii) stopped before exhausting R, with no other limit configured => condition must hold
    if cfg.target_states.is_none() && cfg.target_depth.is_none() && !cfg.strategy.is_sim() {
        if visited.len() < orc.size() {
            if let Ok(disc) = &obs.disc {
                let d: BTreeSet<u8> = disc.keys().map(|n| disc_index(n) as u8).collect();
                let all = d.len() == m.props.len();
                if !cfg.finish.holds(&d, &m.props) && !all {
                    v.push((
                        format!("e1:c12-stopped-early:{s}"),
                        format!("evaluated {:?} of |R|={} and stopped, but finish condition {:?} does not hold for discoveries {:?}", visited, orc.size(), cfg.finish, d),
                    ));
                }
            }
        }
    }
    // (iii) target_state_count
    if let (Some(c), Some(full)) = (cfg.target_states, full) {
        let want = c.min(full.count);
        if obs.count < want {
            v.push((
                format!("e1:c12-target-state-count:{s}"),
                format!("target_state_count={c}: state_count={} but the unrestricted run generates {}", obs.count, full.count),
            ));
        }
    }
    // max_depth() is what a user reads to see how deep the check went: with one thread it is at least the depth of the
    // deepest state that was evaluated and never beyond the configured limit (a dequeued-but-skipped state at the
    // limit may count)
    if !cfg.strategy.is_sim() && cfg.threads == 1 {
        let longest = obs.visited.iter().map(|p| p.len()).max().unwrap_or(0);
        let hi = longest.max(cfg.target_depth.unwrap_or(0));
        if obs.max_depth < longest || obs.max_depth > hi {
            v.push((
                format!("e1:c12-max-depth-report:{s}"),
                format!("max_depth()={} but the deepest evaluated state was reached through {} states (limit {:?})", obs.max_depth, longest, cfg.target_depth),
            ));
        }
    }
    // (iv) target_max_depth (depth = number of states on the path, the unit of max_depth())
    if let Some(d) = cfg.target_depth {
        for p in &obs.visited {
            if p.len() > d {
                v.push((
                    format!("e1:c12-depth-exceeded:{s}"),
                    format!("target_max_depth={d}: evaluated a state through a path of {} states: {:?}", p.len(), p),
                ));
                break;
            }
        }
        if cfg.strategy == Strategy::Bfs && cfg.threads == 1 && cfg.finish == Finish::All && never_all_discovered(m, orc) {
            for st in 0..m.n() as u8 {
                if let Some(dist) = orc.dist[st as usize] {
                    if (dist as usize + 1) < d && !visited.contains(&st) {
                        v.push((
                            "e1:c12-depth-missed:bfs".into(),
                            format!("target_max_depth={d}: state {st} at depth {} (nearer than the limit) was not evaluated", dist + 1),
                        ));
                    }
                }
            }
        }
    }
    v
}

// ------------------------------------------------------------------------------------------------
// Enumeration
// ------------------------------------------------------------------------------------------------

#[derive(Clone)]
pub struct Space {
    pub ns: Vec<usize>,
    pub ignored: bool,
    pub dups: bool,
    pub init_orders: bool,
    pub single_init: bool,
    /// boundaries to use for n nodes
    pub boundaries: fn(usize) -> Vec<u8>,
    pub max_edges: Option<usize>,
}

pub fn b_all(n: usize) -> Vec<u8> {
    (0..(1u32 << n)).map(|b| b as u8).collect()
}
pub fn b_c13(n: usize) -> Vec<u8> {
    let full = ((1u32 << n) - 1) as u8;
    vec![full, full & !0b100, full & !0b010]
}
pub fn b_full(n: usize) -> Vec<u8> {
    vec![((1u32 << n) - 1) as u8]
}
/// full, and each boundary excluding exactly one state
pub fn b_few(n: usize) -> Vec<u8> {
    let full = ((1u32 << n) - 1) as u8;
    let mut v = vec![full];
    for s in 0..n {
        v.push(full & !(1 << s));
    }
    v
}

pub fn for_each_core(sp: &Space, shard: u64, nshards: u64, mut f: impl FnMut(GraphModel)) {
    let mut counter = 0u64;
    for &n in &sp.ns {
        let lists = node_action_lists(n, sp.ignored, sp.dups);
        let total = (lists.len() as u64).pow(n as u32);
        let inits = if sp.single_init {
            vec![vec![0u8]]
        } else {
            init_sets(n, sp.init_orders)
        };
        let bnds = (sp.boundaries)(n);
        for gi in 0..total {
            let succ = graph_at(n, &lists, gi);
            if let Some(me) = sp.max_edges {
                let e: usize = succ.iter().map(|l| l.len()).sum();
                if e > me {
                    continue;
                }
            }
            for init in &inits {
                for &b in &bnds {
                    counter += 1;
                    if counter % nshards != shard {
                        continue;
                    }
                    f(GraphModel {
                        succ: succ.clone(),
                        inits: init.clone(),
                        boundary: b,
                        props: vec![],
                        panic_on: None,
                        panic_thread: None,
                    });
                }
            }
        }
    }
}

pub fn is_swap_symmetric(m: &GraphModel) -> bool {
    if m.n() < 3 {
        return false;
    }
    let pi = |s: u8| match s {
        1 => 2,
        2 => 1,
        x => x,
    };
    let pim = |mask: u8| {
        let mut r = mask & !0b110;
        if mask & 0b010 != 0 {
            r |= 0b100;
        }
        if mask & 0b100 != 0 {
            r |= 0b010;
        }
        r
    };
    for s in 0..m.n() as u8 {
        let mut a: Vec<Option<u8>> = m.succ[s as usize].iter().map(|t| t.map(pi)).collect();
        let mut b: Vec<Option<u8>> = m.succ[pi(s) as usize].clone();
        a.sort();
        b.sort();
        if a != b {
            return false;
        }
    }
    let mut i1: Vec<u8> = m.inits.iter().map(|s| pi(*s)).collect();
    let mut i2 = m.inits.clone();
    i1.sort();
    i2.sort();
    if i1 != i2 {
        return false;
    }
    let nm = ((1u32 << m.n()) - 1) as u8;
    if pim(m.boundary) & nm != m.boundary & nm {
        return false;
    }
    m.props.iter().all(|(_, mask)| pim(*mask) & nm == *mask & nm)
}

pub struct Runner<'a> {
    pub shared: &'a SharedReport,
    pub checks: Vec<&'static str>,
}

fn model_outcome_sig(orc: &Oracle, obs: &Obs) -> String {
    let d: Vec<String> = match &obs.disc {
        Ok(d) => d.iter().map(|(k, p)| format!("{k}:{}", p.len())).collect(),
        Err(_) => vec!["panic".into()],
    };
    format!("R={} vis={} uniq={} disc=[{}] done={}", orc.size(), obs.visited.len(), obs.unique, d.join(","), obs.is_done)
}

pub fn replay_value(m: &GraphModel, cfg: &Config, checks: &[&str]) -> Value {
    json!({"engine": "e1", "model": m, "config": cfg, "checks": checks})
}

impl<'a> Runner<'a> {
    /// Runs one (model, config) against the real checker and applies the selected oracles.
    pub fn case(&self, m: &GraphModel, orc: &Oracle, cfg: &Config, full: Option<&Obs>) -> Obs {
        let rv = replay_value(m, cfg, &self.checks);
        let prop = self.shared.lock().unwrap().property.clone();
        begin_case(
            self.shared,
            &format!("{} T={} on {:?}", cfg.strategy.short(), cfg.threads, m),
            rv.clone(),
            &(if prop == "C05" || prop == "C19" { format!("e1:{}-join-hang:{}", prop.to_lowercase(), cfg.strategy.short()) } else { "machinery:hang".to_string() }),
        );
        let obs = run_case(m, cfg);
        end_case(self.shared);
        let vs = apply_checks(&self.checks, m, orc, cfg, &obs, full);
        let mut r = self.shared.lock().unwrap();
        r.evaluations += 1;
        r.traces += 1;
        r.transitions += obs.count as u64;
        r.states += obs.visited.len() as u64;
        let nt = orc.size() >= 2;
        if nt {
            r.nontrivial += 1;
        }
        r.outcome(model_outcome_sig(orc, &obs));
        r.sample(9973, || json!({"model": m, "config": cfg, "visited_last_states": last_states(&obs), "unique_state_count": obs.unique, "discoveries": obs.disc.as_ref().ok()}));
        for (k, w) in vs {
            r.violation(&k, format!("{w}  [model {:?} cfg {:?}]", m, cfg), rv.clone());
        }
        obs
    }
}

pub fn apply_checks(checks: &[&str], m: &GraphModel, orc: &Oracle, cfg: &Config, obs: &Obs, full: Option<&Obs>) -> Vec<V> {
    let mut vs = Vec::new();
    for c in checks {
        match *c {
            "c01" => vs.extend(o_c01(m, orc, cfg, obs)),
            "c02" => vs.extend(o_c02(m, orc, cfg, obs)),
            "c03" => vs.extend(o_c03(m, orc, cfg, obs)),
            "c11" => vs.extend(o_c11(m, orc, cfg, obs)),
            "c12" => vs.extend(o_c12(m, orc, cfg, obs, full)),
            "c13" => vs.extend(o_c13(m, orc, cfg, obs)),
            _ => {}
        }
    }
    vs
}

/// The structured larger graphs (gm::structured) x init sets x a few boundaries (full; without the middle
/// node; without the last node), sharded. `f` gets the core model and a running index.
pub fn for_each_structured(shard: u64, nshards: u64, mut f: impl FnMut(GraphModel, u64)) {
    let mut counter = 0u64;
    for (_name, succ, inits) in structured() {
        let n = succ.len();
        let full = ((1u32 << n) - 1) as u8;
        for init in &inits {
            for b in [full, full & !(1 << (n / 2)), full & !(1 << (n - 1))] {
                counter += 1;
                if counter % nshards != shard {
                    continue;
                }
                f(GraphModel { succ: succ.clone(), inits: init.clone(), boundary: b, props: vec![], panic_on: None, panic_thread: None }, counter);
            }
        }
    }
}

/// masks worth labelling a larger graph with: nothing, everything, every single state, every all-but-one
fn structured_masks(n: usize) -> Vec<u8> {
    let full = ((1u32 << n) - 1) as u8;
    let mut v = vec![0, full];
    for s in 0..n {
        v.push(1 << s);
        v.push(full & !(1 << s));
    }
    v
}

fn thorough(a: &Args) -> bool {
    a.tier == "thorough"
}

fn exhaustive_strategies() -> Vec<Strategy> {
    vec![Strategy::Bfs, Strategy::Dfs, Strategy::OnDemand]
}

// ---- C01 -----------------------------------------------------------------------------------------

pub fn run_c01(a: &Args, shared: &SharedReport) {
    let th = thorough(a);
    {
        let mut r = shared.lock().unwrap();
        r.rule = "every GraphModel in the stated space x strategy x threads x block size, each once; non-trivial = |R| >= 2".into();
        r.bounds = json!({"nodes": if th {"<=3 all graphs (ignored actions, duplicate edges, init orders, all boundaries); n=4 with <=6 edges"} else {"<=3 all graphs with ignored actions, all init subsets, all boundaries"},
            "strategies": ["bfs","dfs","on_demand+run_to_completion"], "threads": if th {vec![1,2,3]} else {vec![1]}, "block": if th {json!([null,1,2])} else {json!([null,1])}});
    }
    let run = Runner { shared, checks: vec!["c01", "c03"] };
    // quick: n<=2 with every option; n=3 all edge sets x all init subsets x all boundaries (no ignored
    // actions), and n=3 with ignored actions for a single init state and few boundaries.
    let mut spaces = if th {
        vec![Space { ns: vec![1, 2, 3], ignored: true, dups: false, init_orders: true, single_init: false, boundaries: b_all, max_edges: None },
             Space { ns: vec![2, 3], ignored: false, dups: true, init_orders: false, single_init: true, boundaries: b_few, max_edges: None }]
    } else {
        vec![Space { ns: vec![1, 2], ignored: true, dups: true, init_orders: true, single_init: false, boundaries: b_all, max_edges: None },
             Space { ns: vec![3], ignored: false, dups: false, init_orders: false, single_init: false, boundaries: b_all, max_edges: None },
             Space { ns: vec![3], ignored: true, dups: false, init_orders: false, single_init: true, boundaries: b_full, max_edges: None }]
    };
    if th {
        spaces.push(Space { ns: vec![4], ignored: false, dups: false, init_orders: false, single_init: false, boundaries: b_few, max_edges: Some(6) });
    }
    let mut idx = 0u64;
    for sp in &spaces {
        let n4 = sp.ns == vec![4];
        for_each_core(sp, a.shard, a.nshards, |mut m| {
            if n4 && !(m.inits == vec![0] || m.inits == vec![0, 3] || m.inits == vec![1, 2, 3]) {
                return;
            }
            idx += 1;
            // a second property that does get a discovery (the first never does, so the check must go on and still
            // evaluate everything)
            m.props = match idx % 3 {
                0 => vec![always_true(), (Expectation::Sometimes, 1 << (m.n() - 1))],
                1 => vec![always_true(), (Expectation::Always, !(1u8 << (m.n() / 2)))],
                _ => vec![always_true()],
            };
            let orc = Oracle::new(&m);
            let mut strategies = exhaustive_strategies();
            if m.inits.len() >= 2 {
                strategies.push(Strategy::OnDemandProbe(idx as usize));
            }
            for st in strategies {
                let mut cfgs = vec![Config::plain(st.clone())];
                if th || idx % 4 == 0 {
                    cfgs.push(Config { block: Some(1), ..Config::plain(st.clone()) });
                }
                if th && idx % 4 == 1 && orc.size() >= 2 {
                    for t in [2usize, 3] {
                        for b in [Some(1), Some(2)] {
                            cfgs.push(Config { threads: t, block: b, ..Config::plain(st.clone()) });
                        }
                    }
                }
                if !th && idx % 16 == 3 && orc.size() >= 3 {
                    // a free-running sample of the multi-threaded configurations (their schedules are E2's)
                    cfgs.push(Config { threads: 2, block: Some(1), ..Config::plain(st.clone()) });
                    cfgs.push(Config { threads: 3, block: Some(1), ..Config::plain(st.clone()) });
                }
                for cfg in cfgs {
                    run.case(&m, &orc, &cfg, None);
                }
            }
        });
    }
    // the structured larger graphs: deeper paths and wider frontiers, every block size that cuts them differently
    for_each_structured(a.shard, a.nshards, |mut m, k| {
        m.props = match k % 3 {
            0 => vec![always_true(), (Expectation::Sometimes, 1 << (m.n() / 2))],
            1 => vec![always_true(), (Expectation::Always, !(1u8 << (m.n() / 2))), (Expectation::Sometimes, 1)],
            _ => vec![always_true()],
        };
        let orc = Oracle::new(&m);
        let mut strategies = exhaustive_strategies();
        if m.inits.len() >= 2 {
            strategies.push(Strategy::OnDemandProbe(k as usize));
        }
        for st in strategies {
            for b in [None, Some(1), Some(2), Some(3)] {
                run.case(&m, &orc, &Config { block: b, ..Config::plain(st.clone()) }, None);
            }
            if th || k % 4 == 0 {
                for t in [2usize, 3] {
                    run.case(&m, &orc, &Config { threads: t, block: Some(1), ..Config::plain(st.clone()) }, None);
                    if th {
                        run.case(&m, &orc, &Config { threads: t, block: Some(2), ..Config::plain(st.clone()) }, None);
                    }
                }
            }
        }
    });
}

// ---- C02 / C13 -----------------------------------------------------------------------------------

fn c02_spaces(th: bool) -> Vec<Space> {
    if th {
        // ~5M checker runs (the kernel sustains ~8k/s): n<=2 with every option, n=3 all edge sets x all init
        // subsets x 4 boundaries, n=3 with ignored actions for one init state
        vec![
            Space { ns: vec![1, 2], ignored: true, dups: true, init_orders: true, single_init: false, boundaries: b_all, max_edges: None },
            Space { ns: vec![3], ignored: false, dups: false, init_orders: false, single_init: false, boundaries: b_few, max_edges: None },
            Space { ns: vec![3], ignored: true, dups: false, init_orders: false, single_init: true, boundaries: b_full, max_edges: None },
        ]
    } else {
        vec![
            Space { ns: vec![1, 2], ignored: true, dups: false, init_orders: true, single_init: false, boundaries: b_all, max_edges: None },
            Space { ns: vec![3], ignored: false, dups: false, init_orders: false, single_init: true, boundaries: b_few, max_edges: None },
        ]
    }
}

pub fn run_c02(a: &Args, shared: &SharedReport) {
    let th = thorough(a);
    {
        let mut r = shared.lock().unwrap();
        r.rule = "every GraphModel in the stated space x every (always m1, sometimes m2) mask pair (+ triples in thorough) x strategy x threads; non-trivial = |R| >= 2".into();
        r.bounds = json!({"nodes": "<=3", "labellings": "all 2^n x 2^n mask pairs (always m1, sometimes m2); thorough adds triples with a never-witnessed sometimes",
            "strategies": ["bfs","dfs","dfs+symmetry_fn (swap-symmetric models)","on_demand"], "threads": if th {vec![1,2,3]} else {vec![1]}});
    }
    let run = Runner { shared, checks: vec!["c02", "c03", "c13"] };
    for sp in &c02_spaces(th) {
        for_each_core(sp, a.shard, a.nshards, |core| {
            let n = core.n();
            let nm = 1u32 << n;
            let orc = Oracle::new(&GraphModel { props: vec![], ..core.clone() });
            if n == 3 && orc.size() < 2 {
                // thorough keeps the n=3 product affordable: trivial state spaces were covered at n<=2
                return;
            }
            for m1 in 0..nm {
                for m2 in 0..nm {
                    if !th && n == 3 && (m1 + m2) % 2 == 1 {
                        // quick: every other labelling at n=3 (all of them at n<=2 and in the thorough tier)
                        continue;
                    }
                    let mut variants: Vec<Vec<(Expectation, u8)>> = vec![vec![(Expectation::Always, m1 as u8), (Expectation::Sometimes, m2 as u8)]];
                    if (m1 * 3 + m2) % 4 == 2 {
                        // the second property of each kind must be decided as exactly as the first
                        variants.push(vec![(Expectation::Always, 0xFF), (Expectation::Always, m1 as u8), (Expectation::Sometimes, 0), (Expectation::Sometimes, m2 as u8)]);
                    }
                    if (m1 * 3 + m2) % 4 == 0 {
                        // an eventually-property that is satisfied at once, listed after the others: its bookkeeping
                        // (bit index = property index) must not leak into the always/sometimes verdicts
                        variants.push(vec![(Expectation::Always, m1 as u8), (Expectation::Sometimes, m2 as u8), (Expectation::Eventually, 0xFF)]);
                    }
                    if th && (m1 + m2) % 5 == 0 {
                        // a violated/held always, a sometimes, and a never-witnessed sometimes: the search must go on
                        variants.push(vec![(Expectation::Sometimes, m2 as u8), (Expectation::Always, m1 as u8), (Expectation::Sometimes, 0)]);
                    }
                    for props in variants {
                        let m = GraphModel { props, ..core.clone() };
                        let mut strategies = vec![Strategy::Bfs, Strategy::Dfs, Strategy::OnDemand];
                        if is_swap_symmetric(&m) {
                            strategies.push(Strategy::DfsSym);
                        }
                        if m.inits.len() >= 2 && (m1 + m2) % 4 == 1 {
                            strategies.push(Strategy::OnDemandProbe((m1 + m2) as usize));
                        }
                        for st in strategies {
                            run.case(&m, &orc, &Config::plain(st.clone()), None);
                            if (m1 * 5 + m2) % 8 == 1 {
                                // blocks of one state: the worker goes back to the market after every state
                                run.case(&m, &orc, &Config { block: Some(1), ..Config::plain(st.clone()) }, None);
                            }
                            if th && (m1 * 7 + m2) % 16 == 0 {
                                for t in [2usize, 3] {
                                    run.case(&m, &orc, &Config { threads: t, block: Some(1), ..Config::plain(st.clone()) }, None);
                                }
                            }
                        }
                    }
                }
            }
        });
    }
    for_each_structured(a.shard, a.nshards, |core, k| {
        let n = core.n();
        let orc = Oracle::new(&core);
        let masks = structured_masks(n);
        for (i, &m1) in masks.iter().enumerate() {
            // quick: three sometimes-masks per always-mask; thorough: all pairs
            let m2s: Vec<u8> = if th { masks.clone() } else { vec![masks[(i * 7 + 3) % masks.len()], !m1 & masks[1]] };
            for m2 in m2s {
                let props = if (i + m2 as usize) % 3 == 0 {
                    vec![(Expectation::Sometimes, 0), (Expectation::Always, m1), (Expectation::Sometimes, m2)]
                } else {
                    vec![(Expectation::Always, m1), (Expectation::Sometimes, m2)]
                };
                let m = GraphModel { props, ..core.clone() };
                let mut strategies = vec![Strategy::Bfs, Strategy::Dfs, Strategy::OnDemand];
                if is_swap_symmetric(&m) {
                    strategies.push(Strategy::DfsSym);
                }
                for st in strategies {
                    let b = [None, Some(1), Some(2), Some(3)][(i + k as usize) % 4];
                    run.case(&m, &orc, &Config { block: b, ..Config::plain(st.clone()) }, None);
                    if (th && (i + m2 as usize) % 8 == 0) || (!th && (i + k as usize) % 6 == 0) {
                        // free-running samples with more workers than initial states (their schedules are E2's)
                        for t in [2usize, 3] {
                            run.case(&m, &orc, &Config { threads: t, block: Some(1), ..Config::plain(st.clone()) }, None);
                        }
                    }
                }
            }
        }
    });
}

pub fn run_c13(a: &Args, shared: &SharedReport) {
    let th = thorough(a);
    {
        let mut r = shared.lock().unwrap();
        r.rule = "every GraphModel in the stated space x every (always m1, sometimes m2) mask pair, spawn_bfs with one thread; non-trivial = |R| >= 2".into();
        r.bounds = json!({"nodes": if th {"<=3 all; n=4 with <=6 edges"} else {"<=3"}, "labellings": "all mask pairs", "strategy": "bfs, 1 thread, block in {1500, 1}"});
    }
    let run = Runner { shared, checks: vec!["c13", "c03"] };
    let mut spaces = if th {
        vec![Space { ns: vec![1, 2], ignored: true, dups: true, init_orders: true, single_init: false, boundaries: b_all, max_edges: None },
             Space { ns: vec![3], ignored: false, dups: false, init_orders: true, single_init: false, boundaries: b_few, max_edges: None },
             Space { ns: vec![3], ignored: true, dups: false, init_orders: false, single_init: true, boundaries: b_few, max_edges: None }]
    } else {
        vec![Space { ns: vec![1, 2], ignored: true, dups: true, init_orders: true, single_init: false, boundaries: b_all, max_edges: None },
             Space { ns: vec![3], ignored: false, dups: false, init_orders: false, single_init: false, boundaries: b_c13, max_edges: None }]
    };
    if th {
        spaces.push(Space { ns: vec![4], ignored: false, dups: false, init_orders: false, single_init: true, boundaries: b_few, max_edges: Some(6) });
    }
    for sp in &spaces {
        for_each_core(sp, a.shard, a.nshards, |core| {
            let n = core.n();
            let nm = 1u32 << n;
            let orc = Oracle::new(&core);
            if orc.size() < 2 && n >= 3 {
                return;
            }
            for m1 in 0..nm {
                // sometimes-mask: complement rotated, so that both props select different witnesses
                let m2s: Vec<u32> = if n < 3 { (0..nm).collect() } else if th { vec![(!m1 & (nm - 1)).rotate_left(1) % nm, m1, (m1 * 5 + 3) % nm] } else { vec![(!m1 & (nm - 1)).rotate_left(1) % nm] };
                for m2 in m2s {
                    let m = GraphModel { props: vec![(Expectation::Always, m1 as u8), (Expectation::Sometimes, m2 as u8), (Expectation::Sometimes, 0)], ..core.clone() };
                    run.case(&m, &orc, &Config::plain(Strategy::Bfs), None);
                    if (m1 + m2) % 4 == 0 {
                        run.case(&m, &orc, &Config { block: Some(1), ..Config::plain(Strategy::Bfs) }, None);
                    }
                    if (m1 + m2) % 4 == 1 {
                        // a depth limit changes what is evaluated, not the order or the minimality of what is
                        for d in [2usize, 3] {
                            run.case(&m, &orc, &Config { target_depth: Some(d), ..Config::plain(Strategy::Bfs) }, None);
                        }
                    }
                }
            }
        });
    }
    for_each_structured(a.shard, a.nshards, |core, k| {
        let n = core.n();
        let orc = Oracle::new(&core);
        let masks = structured_masks(n);
        for (i, &m1) in masks.iter().enumerate() {
            for m2 in [masks[(i * 7 + 3) % masks.len()], !m1 & masks[1], m1] {
                let m = GraphModel { props: vec![(Expectation::Always, m1), (Expectation::Sometimes, m2), (Expectation::Sometimes, 0)], ..core.clone() };
                let b = [None, Some(1), Some(2), Some(3)][(i + k as usize) % 4];
                run.case(&m, &orc, &Config { block: b, ..Config::plain(Strategy::Bfs) }, None);
                if (i + k as usize) % 3 == 0 {
                    for d in [3usize, 4, 5] {
                        run.case(&m, &orc, &Config { target_depth: Some(d), block: b, ..Config::plain(Strategy::Bfs) }, None);
                    }
                }
            }
        }
    });
}

// ---- C03 / C11 -----------------------------------------------------------------------------------

/// Simulation only terminates through its target/finish condition, and a trace that starts outside
/// the boundary makes no progress: uniform choosers need one in-boundary init state, scripted ones
/// (which always pick the same one) need all of them inside.
fn sim_strategies(m: &GraphModel, seeds: u64, scripts: bool) -> Vec<Strategy> {
    let mut v = Vec::new();
    let inb = m.inits.iter().filter(|i| m.inb(**i)).count();
    if inb == 0 {
        return v;
    }
    let scripts = scripts && inb == m.inits.len();
    for s in 0..seeds {
        v.push(Strategy::SimUniform(s));
    }
    if is_swap_symmetric(m) {
        v.push(Strategy::SimUniformSym(0));
        v.push(Strategy::SimUniformSym(1));
    }
    if scripts {
        // every branch: all scripts of length 4 over {0,1,2} (init choice + 3 action choices)
        for code in 0..81u32 {
            let sc = vec![(code % 3) as u8, (code / 3 % 3) as u8, (code / 9 % 3) as u8, (code / 27) as u8];
            v.push(Strategy::SimScript(7, sc));
        }
    }
    v
}

/// property sets with eventually-properties next to others (the interesting executions continue
/// after the first discovery)
fn eventually_propsets(n: usize, a: u8, b: u8, th: bool) -> Vec<Vec<(Expectation, u8)>> {
    let full = ((1u32 << n) - 1) as u8;
    let mut v = vec![
        vec![(Expectation::Eventually, a), always_true()],
        vec![(Expectation::Eventually, a), (Expectation::Eventually, b)],
        // eventually-properties that are not first in the list (their bit index is the property index)
        vec![always_true(), (Expectation::Sometimes, 0), (Expectation::Eventually, a)],
    ];
    if th {
        v.push(vec![(Expectation::Sometimes, b), (Expectation::Eventually, a), (Expectation::Always, full & !b)]);
        v.push(vec![(Expectation::Eventually, a)]);
    }
    v
}

fn run_eventually(a: &Args, shared: &SharedReport, checks: Vec<&'static str>, with_limits: bool) {
    let th = thorough(a);
    let run = Runner { shared, checks };
    let spaces = if th {
        vec![
            Space { ns: vec![1, 2], ignored: true, dups: true, init_orders: true, single_init: false, boundaries: b_all, max_edges: None },
            Space { ns: vec![3], ignored: false, dups: false, init_orders: false, single_init: false, boundaries: b_few, max_edges: None },
            Space { ns: vec![3], ignored: true, dups: false, init_orders: false, single_init: true, boundaries: b_few, max_edges: None },
        ]
    } else {
        vec![
            Space { ns: vec![1, 2], ignored: true, dups: true, init_orders: true, single_init: false, boundaries: b_all, max_edges: None },
            Space { ns: vec![3], ignored: false, dups: false, init_orders: false, single_init: true, boundaries: b_few, max_edges: None },
        ]
    };
    for sp in &spaces {
        for_each_core(sp, a.shard, a.nshards, |core| {
            let n = core.n();
            let nm = 1u32 << n;
            let orc = Oracle::new(&core);
            if n == 3 && orc.size() < 2 {
                return;
            }
            let mut idx = 0u32;
            for ma in 0..nm {
                let mbs: Vec<u32> = if th && n < 3 { vec![(ma * 3 + 1) % nm, !ma & (nm - 1)] } else { vec![(ma * 3 + 1) % nm] };
                for mb in mbs {
                    for (pi, props) in eventually_propsets(n, ma as u8, mb as u8, th).into_iter().enumerate() {
                        if th && n == 3 && (pi as u32 + ma) % 2 == 1 {
                            continue;
                        }
                        if !th && n == 3 && (pi as u32 + ma) % 4 != 1 {
                            // quick: alternate the two property sets over the masks at n=3
                            continue;
                        }
                        idx += 1;
                        let m = GraphModel { props, ..core.clone() };
                        let mut strategies = exhaustive_strategies();
                        if is_swap_symmetric(&m) {
                            strategies.push(Strategy::DfsSym);
                        }
                        for st in &strategies {
                            run.case(&m, &orc, &Config::plain(st.clone()), None);
                            if th && idx % 8 == 0 {
                                for t in [2usize, 3] {
                                    run.case(&m, &orc, &Config { threads: t, block: Some(1), ..Config::plain(st.clone()) }, None);
                                }
                            }
                            if !with_limits && idx % (if th { 2 } else { 3 }) == 0 {
                                // no false alarm under a depth limit either (a state at the limit is not terminal)
                                for d in [2usize, 3] {
                                    run.case(&m, &orc, &Config { target_depth: Some(d), ..Config::plain(st.clone()) }, None);
                                }
                            }
                            if with_limits && idx % (if th { 2 } else { 6 }) == 0 {
                                for f in [Finish::Any, Finish::AnyFailures, Finish::AnyOf(vec![1])] {
                                    run.case(&m, &orc, &Config { finish: f, ..Config::plain(st.clone()) }, None);
                                }
                                run.case(&m, &orc, &Config { target_depth: Some(2), ..Config::plain(st.clone()) }, None);
                                run.case(&m, &orc, &Config { target_states: Some(2), ..Config::plain(st.clone()) }, None);
                            }
                        }
                        // simulation: soundness only
                        let seeds = if th { if idx % 8 == 0 { 32 } else { 2 } } else if idx % 8 == 0 { 4 } else { 1 };
                        for st in sim_strategies(&m, seeds, idx % (if th { 32 } else { 64 }) == 1) {
                            run.case(&m, &orc, &Config { target_states: Some(12), ..Config::plain(st.clone()) }, None);
                            if with_limits && idx % 4 == 0 {
                                run.case(&m, &orc, &Config { target_states: Some(12), finish: Finish::Any, threads: 2, ..Config::plain(st.clone()) }, None);
                                run.case(&m, &orc, &Config { target_states: Some(12), target_depth: Some(2), ..Config::plain(st) }, None);
                            }
                        }
                    }
                }
            }
        });
    }
    for_each_structured(a.shard, a.nshards, |core, k| {
        if with_limits && !th && k % 3 != 0 {
            // quick C03 takes every third structured model (C11's quick run validates the discoveries of all of them)
            return;
        }
        let n = core.n();
        let orc = Oracle::new(&core);
        let masks = structured_masks(n);
        let mut idx = k as u32;
        for (i, &ma) in masks.iter().enumerate() {
            let mb = masks[(i * 5 + 2) % masks.len()];
            for (pi, props) in eventually_propsets(n, ma, mb, th).into_iter().enumerate() {
                if !th && (pi + i) % 4 != 0 && core.inits.len() < 3 {
                    // (the few models with more roots than workers are not subsampled)
                    continue;
                }
                idx += 1;
                let m = GraphModel { props, ..core.clone() };
                let mut strategies = exhaustive_strategies();
                if is_swap_symmetric(&m) {
                    strategies.push(Strategy::DfsSym);
                }
                for st in &strategies {
                    let b = [None, Some(1), Some(2), Some(3)][(idx % 4) as usize];
                    run.case(&m, &orc, &Config { block: b, ..Config::plain(st.clone()) }, None);
                    if (th && idx % 8 == 0) || m.inits.len() >= 3 {
                        // (more initial states than workers: how the initial jobs are dealt out matters)
                        for t in [2usize, 3, 4] {
                            run.case(&m, &orc, &Config { threads: t, block: Some(1), ..Config::plain(st.clone()) }, None);
                        }
                    }
                    if idx % 3 == 0 {
                        for d in [2usize, 3, 4, 6] {
                            run.case(&m, &orc, &Config { target_depth: Some(d), block: b, ..Config::plain(st.clone()) }, None);
                        }
                    }
                    if with_limits && idx % 4 == 0 {
                        for f in [Finish::Any, Finish::AnyFailures, Finish::AnyOf(vec![1])] {
                            run.case(&m, &orc, &Config { finish: f, block: b, ..Config::plain(st.clone()) }, None);
                        }
                        run.case(&m, &orc, &Config { target_states: Some(3), block: b, ..Config::plain(st.clone()) }, None);
                    }
                }
                let seeds = if th { 8 } else if idx % 4 == 0 { 3 } else { 1 };
                for st in sim_strategies(&m, seeds, idx % 16 == 1) {
                    run.case(&m, &orc, &Config { target_states: Some(24), ..Config::plain(st.clone()) }, None);
                    if idx % 4 == 1 {
                        run.case(&m, &orc, &Config { target_states: Some(24), target_depth: Some(3), ..Config::plain(st) }, None);
                    }
                }
            }
        }
    });
}

pub fn run_c03(a: &Args, shared: &SharedReport) {
    {
        let mut r = shared.lock().unwrap();
        r.rule = "every GraphModel in the stated space x property sets containing eventually-properties next to always/sometimes ones x all five strategies x finish conditions/limits; every (name, path) of discoveries() is re-walked on the graph; non-trivial = |R| >= 2".into();
        r.bounds = json!({"nodes": "<=3", "strategies": ["bfs","dfs","dfs+sym","on_demand","simulation (uniform seeds, scripted chooser over all branches of length 4, symmetry)"], "finish": ["All","Any","AnyFailures","AnyOf"], "limits": ["target_max_depth 2","target_state_count 2/12"]});
    }
    run_eventually(a, shared, vec!["c03"], true);
    // always/sometimes witnesses under every finish condition
    let th = thorough(a);
    let run = Runner { shared, checks: vec!["c03"] };
    let sp = Space { ns: vec![2, 3], ignored: false, dups: false, init_orders: false, single_init: !th, boundaries: if th { b_c13 } else { b_few }, max_edges: None };
    for_each_core(&sp, a.shard, a.nshards, |core| {
        let n = core.n();
        let nm = 1u32 << n;
        let orc = Oracle::new(&core);
        if orc.size() < 2 {
            return;
        }
        let mut fi = 0usize;
        for m1 in 0..nm {
            let m2 = (m1 * 3 + 2) % nm;
            let m = GraphModel { props: vec![(Expectation::Always, m1 as u8), (Expectation::Sometimes, m2 as u8), (Expectation::Sometimes, (m1 ^ m2) as u8)], ..core.clone() };
            let mut strategies = vec![Strategy::Bfs, Strategy::Dfs, Strategy::OnDemand];
            if m.inits.iter().any(|i| m.inb(*i)) {
                strategies.push(Strategy::SimUniform(m1 as u64));
            }
            if is_swap_symmetric(&m) {
                strategies.push(Strategy::DfsSym);
            }
            for st in strategies {
                let ts = if st.is_sim() { Some(12) } else { None };
                let all = [Finish::All, Finish::Any, Finish::AllFailures, Finish::AllOf(vec![0, 2]), Finish::AnyOf(vec![1, 2])];
                fi += 1;
                let chosen: Vec<Finish> = if th { all.to_vec() } else if fi % 2 == 0 { vec![all[fi % 5].clone(), all[(fi + 2) % 5].clone()] } else { vec![all[(fi + 1) % 5].clone()] };
                for f in chosen {
                    run.case(&m, &orc, &Config { finish: f, target_states: ts, ..Config::plain(st.clone()) }, None);
                }
                if th {
                    run.case(&m, &orc, &Config { threads: 3, block: Some(1), target_states: ts, ..Config::plain(st.clone()) }, None);
                }
            }
        }
    });
}

pub fn run_c11(a: &Args, shared: &SharedReport) {
    {
        let mut r = shared.lock().unwrap();
        r.rule = "every GraphModel in the stated space x 1-2 eventually-properties (all masks) with always-true filler x all strategies; oracle = search for a maximal in-boundary path avoiding the mask; exactness required where the oracle finds R forest-shaped; non-trivial = |R| >= 2".into();
        r.bounds = json!({"nodes": "<=3", "strategies": ["bfs","dfs","on_demand","simulation seeds + scripted chooser (soundness only)"], "threads": if thorough(a) {vec![1,2,3]} else {vec![1]}});
    }
    run_eventually(a, shared, vec!["c11", "c03"], false);
    let r = shared.lock().unwrap();
    let _ = &r;
}

// ---- C12 (E1 part) -------------------------------------------------------------------------------

pub fn run_c12_graphs(a: &Args, shared: &SharedReport) {
    let th = thorough(a);
    let run = Runner { shared, checks: vec!["c12"] };
    let spaces = if th {
        vec![Space { ns: vec![1, 2], ignored: true, dups: false, init_orders: false, single_init: false, boundaries: b_all, max_edges: None },
             Space { ns: vec![3], ignored: false, dups: false, init_orders: false, single_init: false, boundaries: b_c13, max_edges: None },
             Space { ns: vec![3], ignored: true, dups: false, init_orders: false, single_init: true, boundaries: b_full, max_edges: None },
             Space { ns: vec![4], ignored: false, dups: false, init_orders: false, single_init: true, boundaries: b_full, max_edges: Some(4) }]
    } else {
        vec![Space { ns: vec![2], ignored: true, dups: false, init_orders: false, single_init: false, boundaries: b_all, max_edges: None },
             Space { ns: vec![3], ignored: false, dups: false, init_orders: false, single_init: true, boundaries: b_few, max_edges: None },
             Space { ns: vec![4], ignored: false, dups: false, init_orders: false, single_init: true, boundaries: b_full, max_edges: Some(3) }]
    };
    for sp in &spaces {
        for_each_core(sp, a.shard, a.nshards, |core| {
            let n = core.n();
            let nm = 1u32 << n;
            let orc = Oracle::new(&core);
            if orc.size() < 2 {
                return;
            }
            // (iii)+(iv): targets and depth limits, one always-true property so nothing else stops the run
            let m = GraphModel { props: vec![always_true()], ..core.clone() };
            for st in [Strategy::Bfs, Strategy::Dfs, Strategy::OnDemand, Strategy::SimUniform(3)] {
                let sim = st.is_sim();
                let full = if sim { None } else { Some(run_case(&m, &Config::plain(st.clone()))) };
                if !sim {
                    for c in 1..=(if th { 8 } else { 4 }) {
                        run.case(&m, &orc, &Config { target_states: Some(c), ..Config::plain(st.clone()) }, full.as_ref());
                    }
                }
                for d in 1..=(if th { 5 } else { 3 }) {
                    run.case(&m, &orc, &Config { target_depth: Some(d), target_states: if sim { Some(10) } else { None }, ..Config::plain(st.clone()) }, None);
                    if th && !sim {
                        run.case(&m, &orc, &Config { target_depth: Some(d), threads: 2, block: Some(1), ..Config::plain(st.clone()) }, None);
                    }
                }
            }
            // (ii): finish conditions
            let step = if th { 2 } else { 3 };
            let mut fi = 0usize;
            for m1 in (0..nm).step_by(step) {
                for m2 in (0..nm).step_by(step) {
                    let m = GraphModel { props: vec![(Expectation::Always, m1 as u8), (Expectation::Sometimes, m2 as u8), (Expectation::Always, (m1 | m2) as u8)], ..core.clone() };
                    for st in [Strategy::Bfs, Strategy::Dfs, Strategy::OnDemand] {
                        let all = [Finish::Any, Finish::AnyFailures, Finish::AllFailures, Finish::AllOf(vec![0, 1]), Finish::AnyOf(vec![1, 2]), Finish::AllOf(vec![]), Finish::AnyOf(vec![])];
                        fi += 1;
                        let chosen: Vec<Finish> = if th { vec![all[fi % 7].clone(), all[(fi + 2) % 7].clone(), all[(fi + 4) % 7].clone()] } else { vec![all[fi % 7].clone(), all[(fi + 3) % 7].clone()] };
                        for f in chosen {
                            run.case(&m, &orc, &Config { finish: f.clone(), block: Some(1), ..Config::plain(st.clone()) }, None);
                            if th {
                                run.case(&m, &orc, &Config { finish: f, threads: 2, block: Some(1), ..Config::plain(st.clone()) }, None);
                            }
                        }
                    }
                }
            }
        });
    }
    for_each_structured(a.shard, a.nshards, |core, k| {
        let n = core.n();
        let orc = Oracle::new(&core);
        if orc.size() < 2 {
            return;
        }
        let m = GraphModel { props: vec![always_true()], ..core.clone() };
        for st in [Strategy::Bfs, Strategy::Dfs, Strategy::OnDemand, Strategy::SimUniform(k)] {
            let sim = st.is_sim();
            let b = [None, Some(1), Some(2), Some(3)][(k % 4) as usize];
            let full = if sim { None } else { Some(run_case(&m, &Config { block: b, ..Config::plain(st.clone()) })) };
            if !sim {
                for c in 1..=(n + 2) {
                    run.case(&m, &orc, &Config { target_states: Some(c), block: b, ..Config::plain(st.clone()) }, full.as_ref());
                }
            }
            for d in 1..=7 {
                run.case(&m, &orc, &Config { target_depth: Some(d), block: b, target_states: if sim { Some(20) } else { None }, ..Config::plain(st.clone()) }, None);
                if th && !sim {
                    run.case(&m, &orc, &Config { target_depth: Some(d), threads: 2, block: Some(1), ..Config::plain(st.clone()) }, None);
                }
            }
        }
        let masks = structured_masks(n);
        let mut fi = k as usize;
        for (i, &m1) in masks.iter().enumerate() {
            let m2 = masks[(i * 7 + 3) % masks.len()];
            let m = GraphModel { props: vec![(Expectation::Always, m1), (Expectation::Sometimes, m2), (Expectation::Always, m1 | m2)], ..core.clone() };
            for st in [Strategy::Bfs, Strategy::Dfs, Strategy::OnDemand] {
                let all = [Finish::Any, Finish::AnyFailures, Finish::AllFailures, Finish::AllOf(vec![0, 1]), Finish::AnyOf(vec![1, 2]), Finish::AllOf(vec![]), Finish::AnyOf(vec![])];
                fi += 1;
                for f in [all[fi % 7].clone(), all[(fi + 3) % 7].clone()] {
                    run.case(&m, &orc, &Config { finish: f, block: Some(1 + fi % 2), ..Config::plain(st.clone()) }, None);
                }
            }
        }
    });
}

// ---- replay ---------------------------------------------------------------------------------------

pub fn replay(v: &Value) -> Vec<V> {
    let m: GraphModel = serde_json::from_value(v["model"].clone()).expect("model");
    let cfg: Config = serde_json::from_value(v["config"].clone()).expect("config");
    let checks: Vec<String> = serde_json::from_value(v["checks"].clone()).expect("checks");
    let orc = Oracle::new(&m);
    let obs = run_case(&m, &cfg);
    let full = if cfg.target_states.is_some() && !cfg.strategy.is_sim() {
        Some(run_case(&m, &Config::plain(cfg.strategy.clone())))
    } else {
        None
    };
    let checks_static: Vec<&str> = checks.iter().map(|s| s.as_str()).collect();
    println!("model: {}", serde_json::to_string(&m).unwrap());
    println!("config: {}", serde_json::to_string(&cfg).unwrap());
    println!("oracle: R={:#05b} dist={:?} forest={}", orc.r, orc.dist, orc.forest);
    println!("observed: {}", serde_json::to_string(&json!({"visited": obs.visited, "unique": obs.unique, "count": obs.count, "is_done": obs.is_done, "discoveries": obs.disc.as_ref().ok(), "disc_panic": obs.disc.as_ref().err(), "assert_ok": obs.assert_ok, "join_panicked": obs.join_panicked})).unwrap());
    let mut out = Vec::new();
    for c in checks_static {
        match c {
            "c01" => out.extend(o_c01(&m, &orc, &cfg, &obs)),
            "c02" => out.extend(o_c02(&m, &orc, &cfg, &obs)),
            "c03" => out.extend(o_c03(&m, &orc, &cfg, &obs)),
            "c11" => out.extend(o_c11(&m, &orc, &cfg, &obs)),
            "c12" => out.extend(o_c12(&m, &orc, &cfg, &obs, full.as_ref())),
            "c13" => out.extend(o_c13(&m, &orc, &cfg, &obs)),
            _ => {}
        }
    }
    out
}
