//! E2 — every schedule (up to a preemption bound) of the real worker threads and of the job market
//! under the controlled scheduler: C05, the timeout clause of C12, the schedule dimension of C03.

use crate::engines::e1::{apply_checks, replay_value};
use crate::gm::*;
use crate::report::*;
use crate::run::*;
use crate::sched::*;
use crate::Args;
use serde_json::{json, Value};
use stateright::verif::JobBrokerFacade;
use stateright::*;
use std::collections::{BTreeMap, BTreeSet, VecDeque};
use std::panic::{catch_unwind, AssertUnwindSafe};
use std::sync::{Arc, Mutex, OnceLock};
use std::time::Duration;

static SCHED: OnceLock<Arc<Sched>> = OnceLock::new();

pub fn sched() -> Arc<Sched> {
    SCHED
        .get_or_init(|| {
            let s = Sched::new();
            stateright::verif::install(s.clone());
            s
        })
        .clone()
}

fn names(threads: usize, timer: bool) -> Vec<String> {
    let mut v: Vec<String> = (0..threads).map(|t| format!("checker-{t}")).collect();
    if timer {
        v.push("timeout".into());
    }
    v
}

#[derive(Clone, Debug)]
pub struct Timeout {
    pub secs: u64,
    pub policy: ClockPolicy,
}

/// One execution of a real checker under the scheduler.
pub fn run_scheduled(m: &GraphModel, cfg: &Config, timeout: Option<&Timeout>, schedule: &[usize], horizon: usize) -> (Obs, RunTrace) {
    let s = sched();
    let rec: Arc<Mutex<Vec<PathV>>> = Arc::new(Mutex::new(Vec::new()));
    let mut b = builder(m, cfg, &rec);
    if let Some(t) = timeout {
        b = b.timeout(Duration::from_secs(t.secs));
    }
    let nm = names(cfg.threads, timeout.is_some());
    let workers: Vec<usize> = (0..cfg.threads).collect();
    let all: Vec<usize> = (0..nm.len()).collect();
    let policy = timeout.map(|t| t.policy).unwrap_or(ClockPolicy::Mintime);
    crate::hooks::set_block_limit(cfg.block);
    s.begin(&nm);
    let mut trace: Option<RunTrace> = None;
    let mut between = || {
        let tr = drive(&s, &workers, &all, schedule, policy, horizon);
        let ok = tr.end == RunEnd::AllExited;
        trace = Some(tr);
        ok
    };
    let obs = match &cfg.strategy {
        Strategy::Bfs => finish_run_with(b.spawn_bfs(), false, &rec, &mut between),
        Strategy::Dfs | Strategy::DfsSym => finish_run_with(b.spawn_dfs(), false, &rec, &mut between),
        Strategy::OnDemand | Strategy::OnDemandProbe(_) => finish_run_with(b.spawn_on_demand(), true, &rec, &mut between),
        Strategy::SimUniform(seed) | Strategy::SimUniformSym(seed) => finish_run_with(b.spawn_simulation(*seed, UniformChooser), false, &rec, &mut between),
        Strategy::SimScript(seed, script) => finish_run_with(b.spawn_simulation(*seed, ScriptChooser(script.clone())), false, &rec, &mut between),
    };
    let tr = trace.unwrap();
    if tr.end == RunEnd::AllExited {
        s.end();
    }
    crate::hooks::set_block_limit(None);
    (obs, tr)
}

fn abort_on(shared: &SharedReport, out: &str, key: &str, what: String, rv: Value) -> ! {
    // threads of the subject are parked inside the scheduler and cannot be recovered: report and leave
    let mut r = shared.lock().unwrap();
    r.violation(key, what, rv);
    r.notes.push("shard stopped after a deadlock / non-termination verdict (parked threads cannot be recovered)".into());
    r.exhaustive = false;
    write_out(&r, out);
    std::process::exit(3);
}

fn zoo_models() -> Vec<(&'static str, GraphModel)> {
    let at = (Expectation::Always, 0xFFu8);
    let g = |succ: Vec<Vec<Option<u8>>>, inits: Vec<u8>, boundary: u8, props: Vec<(Expectation, u8)>| GraphModel { succ, inits, boundary, props, panic_on: None, panic_thread: None };
    vec![
        ("diamond", g(vec![vec![Some(1), Some(2)], vec![Some(3)], vec![Some(3)], vec![]], vec![0], 0b1111, vec![at.clone()])),
        ("cycle3", g(vec![vec![Some(1)], vec![Some(2)], vec![Some(0), Some(1)]], vec![0], 0b111, vec![at.clone(), (Expectation::Sometimes, 0b100)])),
        ("two-inits", g(vec![vec![Some(2)], vec![Some(2), Some(3)], vec![], vec![Some(0)]], vec![0, 1], 0b1111, vec![at.clone()])),
        ("tree3", g(vec![vec![Some(1), Some(2)], vec![Some(3), Some(4)], vec![Some(5)], vec![], vec![], vec![]], vec![0], 0b111111, vec![at.clone(), (Expectation::Eventually, 0b001000)])),
        ("boundary-cut", g(vec![vec![Some(1), Some(2)], vec![Some(3)], vec![Some(3)], vec![Some(0)]], vec![0], 0b1011, vec![at.clone()])),
        ("deep-violation", g(vec![vec![Some(1), Some(2)], vec![Some(3)], vec![], vec![Some(4)], vec![]], vec![0], 0b11111, vec![(Expectation::Always, 0b01111), (Expectation::Sometimes, 0)])),
        ("one-branch-witness", g(vec![vec![Some(1), Some(2), None], vec![], vec![Some(3)], vec![]], vec![0], 0b1111, vec![(Expectation::Sometimes, 0b1000), at.clone()])),
        ("wide", g(vec![vec![Some(1), Some(2), Some(3)], vec![Some(4)], vec![Some(4)], vec![Some(4)], vec![]], vec![0], 0b11111, vec![at.clone(), (Expectation::Eventually, 0b10000)])),
        // two states violating the same always-property can be evaluated by two workers at the same time, while the
        // witness of the second property lies deeper
        // (the third property never gets a discovery, so nothing may stop the check before every state was evaluated)
        ("twin-violations", g(vec![vec![Some(1), Some(2)], vec![Some(3)], vec![Some(3)], vec![Some(4)], vec![Some(5)], vec![]], vec![0], 0b111111, vec![(Expectation::Always, 0b111001), (Expectation::Sometimes, 0b010000), at.clone()])),
    ]
}

/// A full binary tree of the given depth as a GraphModel would be too big; an "effectively
/// unbounded" model for timeouts.
#[derive(Clone)]
pub struct BigTree {
    pub depth: u32,
    pub branching: u64,
}
impl Model for BigTree {
    type State = (u32, u64);
    type Action = u64;
    fn init_states(&self) -> Vec<(u32, u64)> {
        vec![(0, 0)]
    }
    fn actions(&self, s: &(u32, u64), a: &mut Vec<u64>) {
        if s.0 < self.depth {
            for k in 0..self.branching {
                a.push(k);
            }
        }
    }
    fn next_state(&self, s: &(u32, u64), a: u64) -> Option<(u32, u64)> {
        Some((s.0 + 1, s.1.wrapping_mul(self.branching).wrapping_add(a).wrapping_add(1) % 1_000_000_007))
    }
    fn properties(&self) -> Vec<Property<Self>> {
        vec![Property::always("true", |_, _| true)]
    }
}

// ---- Harness A: the real checkers ------------------------------------------------------------------

struct ACase {
    name: String,
    model: GraphModel,
    cfg: Config,
    stop: &'static str,
}

fn a_cases(th: bool) -> Vec<ACase> {
    let mut v = Vec::new();
    let threads: Vec<usize> = if th { vec![2, 3] } else { vec![2] };
    for (name, m) in zoo_models() {
        for st in [Strategy::Bfs, Strategy::Dfs, Strategy::OnDemand] {
            for &t in &threads {
                for block in if th { vec![Some(1), Some(2)] } else { vec![Some(1)] } {
                    if t == 3 && block == Some(2) {
                        continue;
                    }
                    v.push(ACase { name: format!("{name}/{}/T{t}/b{:?}", st.short(), block), model: m.clone(), cfg: Config { threads: t, block, ..Config::plain(st.clone()) }, stop: "exhaustion" });
                }
            }
        }
    }
    // early stops
    let zm = zoo_models();
    let deep = zm.iter().find(|x| x.0 == "deep-violation").unwrap().1.clone();
    let cyc = zm.iter().find(|x| x.0 == "cycle3").unwrap().1.clone();
    let wide = zm.iter().find(|x| x.0 == "wide").unwrap().1.clone();
    for st in [Strategy::Bfs, Strategy::Dfs, Strategy::OnDemand] {
        for &t in &threads {
            v.push(ACase { name: format!("deep/finish-any/{}/T{t}", st.short()), model: deep.clone(), cfg: Config { threads: t, block: Some(1), finish: Finish::Any, ..Config::plain(st.clone()) }, stop: "finish_when" });
            v.push(ACase { name: format!("cycle/finish-anyof/{}/T{t}", st.short()), model: cyc.clone(), cfg: Config { threads: t, block: Some(1), finish: Finish::AnyOf(vec![1]), ..Config::plain(st.clone()) }, stop: "finish_when" });
            v.push(ACase { name: format!("wide/target3/{}/T{t}", st.short()), model: wide.clone(), cfg: Config { threads: t, block: Some(1), target_states: Some(3), ..Config::plain(st.clone()) }, stop: "target" });
            // panic in model code
            let mut pm = wide.clone();
            pm.panic_on = Some(2);
            v.push(ACase { name: format!("wide/panic/{}/T{t}", st.short()), model: pm, cfg: Config { threads: t, block: Some(1), ..Config::plain(st.clone()) }, stop: "panic" });
        }
    }
    // dfs with symmetry on a swap-symmetric diamond
    let sym = GraphModel { succ: vec![vec![Some(1), Some(2)], vec![Some(0)], vec![Some(0)]], inits: vec![0], boundary: 0b111, props: vec![(Expectation::Always, 0xFF), (Expectation::Sometimes, 0b110)], panic_on: None, panic_thread: None };
    for &t in &threads {
        v.push(ACase { name: format!("sym/dfs+sym/T{t}"), model: sym.clone(), cfg: Config { threads: t, block: Some(1), ..Config::plain(Strategy::DfsSym) }, stop: "exhaustion" });
    }
    // simulation: stops by target; siblings; panic
    for &t in &threads {
        v.push(ACase { name: format!("wide/sim/T{t}"), model: wide.clone(), cfg: Config { threads: t, target_states: Some(6), ..Config::plain(Strategy::SimUniform(1)) }, stop: "target" });
        let mut pm = wide.clone();
        pm.panic_on = Some(4);
        v.push(ACase { name: format!("wide/sim-panic/T{t}"), model: pm, cfg: Config { threads: t, target_states: Some(1000), ..Config::plain(Strategy::SimUniform(1)) }, stop: "panic" });
        // a panic that only one worker runs into: the others must stop too and join must not hang
        for who in [0, t - 1] {
            for st in [Strategy::Bfs, Strategy::Dfs, Strategy::OnDemand, Strategy::SimUniform(2)] {
                let mut pm = wide.clone();
                pm.panic_thread = Some(format!("checker-{who}"));
                let ts = if st.is_sim() { Some(40) } else { None };
                v.push(ACase { name: format!("wide/panic-on-checker-{who}/{}/T{t}", st.short()), model: pm, cfg: Config { threads: t, block: Some(1), target_states: ts, ..Config::plain(st.clone()) }, stop: "panic-one" });
            }
        }
    }
    v
}

fn check_a(case: &ACase, obs: &Obs, tr: &RunTrace) -> Vec<(String, String)> {
    let mut v = Vec::new();
    let s = case.cfg.strategy.short();
    let orc = Oracle::new(&case.model);
    match case.stop {
        "panic-one" => {
            // the designated worker evaluates at least one state in every schedule only for
            // simulation (every worker runs traces); for the exhaustive checkers it may never get a job
            // Once the worker has died from the panic every sibling must stop: a simulation worker may
            // finish the trace it is in and then sees the shutdown at its next trace start.
            if case.cfg.strategy.is_sim() {
                let who: usize = case.model.panic_thread.as_ref().and_then(|n| n.rsplit('-').next().and_then(|x| x.parse().ok())).unwrap_or(0);
                let ran = tr.log.iter().any(|(t, l)| *t == who && l == "yield sim-state");
                if let Some(pos) = tr.log.iter().position(|(t, l)| *t == who && l == "exit") {
                    if ran || obs.join_panicked {
                        let mut later: BTreeMap<usize, usize> = BTreeMap::new();
                        for (t, l) in &tr.log[pos..] {
                            if *t != who && l == "yield sim-trace" {
                                *later.entry(*t).or_insert(0) += 1;
                            }
                        }
                        if let Some((t, n)) = later.iter().find(|(_, n)| **n > 1) {
                            v.push((format!("e2:c05-sibling-keeps-running-after-panic:{s}"), format!("worker {who} died from a panic in model code, but worker {t} started {n} more traces afterwards")));
                        }
                    }
                }
            }
        }
        "panic" => {
            if !obs.join_panicked {
                // a panic that never happened in this schedule is fine if the panicking state was never
                // evaluated because another worker... no: the state is reachable, some worker evaluates it
                // unless an early stop applies (none configured), except for simulation which may not reach it
                if !case.cfg.strategy.is_sim() {
                    v.push((format!("e2:c05-panic-swallowed:{s}"), "model code panicked in a worker but join() returned normally".into()));
                }
            }
        }
        _ => {
            if obs.join_panicked {
                v.push((format!("e2:c05-join-panicked:{s}"), "join() panicked although the model does not".into()));
                return v;
            }
        }
    }
    if obs.join_panicked {
        return v;
    }
    let mut seen: BTreeMap<u8, usize> = BTreeMap::new();
    for p in &obs.visited {
        *seen.entry(p.last().unwrap().0).or_insert(0) += 1;
    }
    let exhaustive = case.stop == "exhaustion";
    if !case.cfg.strategy.is_sim() {
        for (st, c) in &seen {
            if *c > 1 && !case.cfg.strategy.is_sym() {
                v.push((format!("e2:c05-state-evaluated-twice:{s}"), format!("state {st} was evaluated {c} times across the workers")));
            }
            if !orc.reach(*st) {
                v.push((format!("e2:c05-unreachable-evaluated:{s}"), format!("state {st} is not reachable but was evaluated")));
            }
        }
    }
    if exhaustive && !case.cfg.strategy.is_sym() {
        for st in 0..case.model.n() as u8 {
            if orc.reach(st) && !seen.contains_key(&st) {
                v.push((format!("e2:c05-work-lost:{s}"), format!("reachable state {st} was never evaluated (evaluated: {:?})", seen.keys().collect::<Vec<_>>())));
            }
        }
        if obs.unique != orc.size() {
            v.push((format!("e2:c05-unique-count:{s}"), format!("unique_state_count={} but |R|={}", obs.unique, orc.size())));
        }
    }
    if exhaustive {
        // same verdicts as the single-threaded check = the oracle's verdicts
        v.extend(apply_checks(&["c02"], &case.model, &orc, &case.cfg, obs, None).into_iter().map(|(k, w)| (k.replace("e1:", "e2:c05-verdict-"), w)));
        if !obs.is_done {
            v.push((format!("e2:c05-not-done:{s}"), "is_done() false after all workers exited".into()));
        }
    }
    v.extend(apply_checks(&["c03"], &case.model, &orc, &case.cfg, obs, None).into_iter().map(|(k, w)| (k.replace("e1:", "e2:"), w)));
    if case.stop == "target" {
        if let Some(c) = case.cfg.target_states {
            if obs.count < c.min(orc.size()) {
                v.push((format!("e2:c12-target-state-count:{s}"), format!("state_count={} < target {c}", obs.count)));
            }
        }
    }
    let _ = tr;
    v
}

pub fn harness_a(a: &Args, shared: &SharedReport, th: bool, prop: &str) {
    let bound = if th { 3 } else { 2 };
    let cases = a_cases(th);
    for (ci, case) in cases.iter().enumerate() {
        if (ci as u64) % a.nshards != a.shard {
            continue;
        }
        // the twin-violations races need three preemptions (both workers between their look-up and their insertion,
        // then the first one again): that one model is explored one bound deeper, also in quick
        if let Ok(f) = std::env::var("VERIF_E2_ONLY") {
            if !case.name.contains(&f) {
                continue;
            }
        }
        // (the twin-violations race needs three preemptions - both workers between their look-up and their insertion,
        // then the first one again: it is within the thorough tier's bound, not within quick's)
        let max_exec = if th { 20_000 } else { 8_000 };
        let mut ex = Explorer::new(bound, max_exec);
        let mut outcomes: BTreeSet<String> = BTreeSet::new();
        let rvbase = replay_value(&case.model, &case.cfg, &["e2a"]);
        let mut run = |schedule: &[usize]| {
            let mut rv = rvbase.clone();
            rv["engine"] = json!("e2a");
            rv["schedule"] = json!(schedule);
            rv["case"] = json!(case.name);
            begin_case(shared, &format!("e2a {}", case.name), rv.clone(), &format!("e2:{}-stuck-outside-scheduler", prop.to_lowercase()));
            let (obs, tr) = run_scheduled(&case.model, &case.cfg, None, schedule, 5000);
            end_case(shared);
            match &tr.end {
                RunEnd::Deadlock(d) => abort_on(shared, &a.out, &format!("e2:c05-deadlock:{}", case.cfg.strategy.short()), format!("{}: {d}; schedule {:?}; log {:?}", case.name, schedule, tr.log), rv),
                RunEnd::Horizon => abort_on(shared, &a.out, &format!("e2:c05-non-termination:{}", case.cfg.strategy.short()), format!("{}: more than 5000 scheduling steps on a finite model; schedule {:?}", case.name, schedule), rv),
                RunEnd::AllExited => {}
            }
            let vs = check_a(case, &obs, &tr);
            let mut last: Vec<u8> = obs.visited.iter().map(|p| p.last().unwrap().0).collect();
            last.sort();
            outcomes.insert(format!("{:?}|{:?}|{}", last, obs.disc.as_ref().map(|d| d.keys().cloned().collect::<Vec<_>>()).unwrap_or_default(), obs.join_panicked));
            let mut r = shared.lock().unwrap();
            r.evaluations += 1;
            r.nontrivial += 1;
            r.traces += 1;
            r.transitions += tr.steps as u64;
            r.states += obs.visited.len() as u64;
            let mut ok = true;
            for (k, w) in vs {
                ok = false;
                r.violation(&k, format!("{}: {w}; schedule {:?}", case.name, schedule), rv.clone());
            }
            (tr, ok)
        };
        let finished = ex.explore(vec![], &mut run);
        let mut r = shared.lock().unwrap();
        r.outcome(format!("{}:{}", case.name, outcomes.len()));
        r.count("executions", ex.executions);
        r.count("distinct_final_observations", outcomes.len() as u64);
        for (k, n) in &ex.preemption_histogram {
            r.count(&format!("executions_with_{k}_preemptions"), *n);
        }
        if ex.capped {
            r.cap(format!("{}: execution cap {} reached at preemption bound {}", case.name, max_exec, bound));
        }
        if !finished {
            r.notes.push(format!("{}: exploration stopped at the first violating schedule", case.name));
        }
        r.sample(3, || json!({"case": case.name, "preemption_bound": bound, "executions": ex.executions, "max_steps": ex.max_steps, "distinct_final_observations": outcomes.len()}));
    }
}

// ---- Harness B: the market alone -------------------------------------------------------------------

#[derive(Clone, Debug)]
enum Script {
    Normal,
    /// return (dropping the broker) after processing k jobs
    EarlyReturn(usize),
    /// panic after processing k jobs, while still holding jobs
    PanicAfter(usize),
}

#[derive(Clone, Debug)]
struct BCase {
    name: String,
    /// children per job
    tree: Vec<Vec<u32>>,
    roots: Vec<u32>,
    scripts: Vec<Script>,
}

fn b_cases(th: bool) -> Vec<BCase> {
    let trees: Vec<(&str, Vec<Vec<u32>>, Vec<u32>)> = vec![
        ("chain3", vec![vec![1], vec![2], vec![]], vec![0]),
        ("fan3", vec![vec![1, 2, 3], vec![], vec![], vec![]], vec![0]),
        ("bin5", vec![vec![1, 2], vec![3, 4], vec![], vec![], vec![]], vec![0]),
        ("two-roots", vec![vec![2], vec![3], vec![], vec![4], vec![]], vec![0, 1]),
        ("bin7", vec![vec![1, 2], vec![3, 4], vec![5, 6], vec![], vec![], vec![], vec![]], vec![0]),
        // wide fans: a queue of 5-7 jobs meets 1-3 idle workers (every queue length / piece count combination)
        ("fan5", vec![vec![1, 2, 3, 4, 5], vec![], vec![], vec![], vec![], vec![]], vec![0]),
        ("fan7", vec![vec![1, 2, 3, 4, 5, 6, 7], vec![], vec![], vec![], vec![], vec![], vec![], vec![]], vec![0]),
        ("fan4-then-2", vec![vec![1, 2, 3, 4], vec![5, 6], vec![], vec![], vec![], vec![], vec![]], vec![0]),
    ];
    let mut v = Vec::new();
    for (n, t, roots) in &trees {
        let wide = n.starts_with("fan") && t.len() > 4;
        for nw in if th { vec![2usize, 3, 4] } else if wide { vec![2usize, 3, 4] } else { vec![2usize] } {
            if nw == 3 && t.len() > 5 && !wide {
                continue;
            }
            if nw == 4 && (!wide || (!th && *n != "fan5")) {
                continue;
            }
            v.push(BCase { name: format!("{n}/w{nw}/normal"), tree: t.clone(), roots: roots.clone(), scripts: vec![Script::Normal; nw] });
            let mut s = vec![Script::Normal; nw];
            s[0] = Script::EarlyReturn(1);
            v.push(BCase { name: format!("{n}/w{nw}/early-return"), tree: t.clone(), roots: roots.clone(), scripts: s });
            let mut s = vec![Script::Normal; nw];
            s[nw - 1] = Script::PanicAfter(1);
            v.push(BCase { name: format!("{n}/w{nw}/panic"), tree: t.clone(), roots: roots.clone(), scripts: s });
        }
    }
    v
}

struct BObs {
    processed: Vec<(usize, u32)>,
    exits: usize,
    /// workers whose thread ended with a panic
    panicked: Vec<usize>,
}

fn run_market(case: &BCase, schedule: &[usize], horizon: usize) -> (BObs, RunTrace) {
    let s = sched();
    let nw = case.scripts.len();
    let nm = names(nw, false);
    let all: Vec<usize> = (0..nw).collect();
    s.begin(&nm);
    let mut broker: JobBrokerFacade<u32> = JobBrokerFacade::new(nw, None);
    broker.push(case.roots.iter().copied().collect());
    let processed: Arc<Mutex<Vec<(usize, u32)>>> = Arc::new(Mutex::new(Vec::new()));
    let mut handles = Vec::new();
    for (w, script) in case.scripts.iter().enumerate() {
        let mut b = broker.clone();
        let tree = case.tree.clone();
        let script = script.clone();
        let processed = Arc::clone(&processed);
        handles.push(
            std::thread::Builder::new()
                .name(format!("checker-{w}"))
                .spawn(move || {
                    let mut pending: VecDeque<u32> = VecDeque::new();
                    let mut done = 0usize;
                    loop {
                        if pending.is_empty() {
                            pending = b.pop();
                            if pending.is_empty() {
                                return;
                            }
                        }
                        let job = pending.pop_back().unwrap();
                        processed.lock().unwrap().push((w, job));
                        done += 1;
                        for c in &tree[job as usize] {
                            pending.push_front(*c);
                        }
                        match script {
                            Script::EarlyReturn(k) if done >= k => return,
                            Script::PanicAfter(k) if done >= k => panic!("verif: worker panics holding {} jobs", pending.len()),
                            _ => {}
                        }
                        if pending.len() > 1 {
                            b.split_and_push(&mut pending);
                        }
                    }
                })
                .unwrap(),
        );
    }
    let tr = drive(&s, &all, &all, schedule, ClockPolicy::Mintime, horizon);
    let mut exits = 0;
    let mut panicked: Vec<usize> = Vec::new();
    if tr.end == RunEnd::AllExited {
        for (w, h) in handles.into_iter().enumerate() {
            if h.join().is_err() {
                panicked.push(w);
            }
            exits += 1;
        }
    }
    s.end();
    drop(broker);
    let p = processed.lock().unwrap().clone();
    (BObs { processed: p, exits, panicked }, tr)
}

pub fn harness_b(a: &Args, shared: &SharedReport, th: bool) {
    let cases = b_cases(th);
    for (ci, case) in cases.iter().enumerate() {
        if (ci as u64) % a.nshards != a.shard {
            continue;
        }
        let nw = case.scripts.len();
        // 2 workers: all schedules (bound = "infinite"); 3 workers: preemption bound 3 (2 in quick)
        let bound = if nw == 2 { if th { 1000 } else { 4 } } else if nw == 3 { if th { 3 } else { 2 } } else if th { 2 } else { 1 };
        let max_exec: u64 = std::env::var("VERIF_E2_MAXEXEC").ok().and_then(|v| v.parse().ok()).unwrap_or(if th { 50_000 } else if nw == 4 { 15_000 } else { 6_000 });
        if let Ok(f) = std::env::var("VERIF_E2_ONLY") {
            if !case.name.contains(&f) {
                continue;
            }
        }
        let mut ex = Explorer::new(bound, max_exec);
        let mut outcomes: BTreeSet<String> = BTreeSet::new();
        let normal = case.scripts.iter().all(|s| matches!(s, Script::Normal));
        let mut run = |schedule: &[usize]| {
            let rv = json!({"engine": "e2b", "case": case.name, "tree": case.tree, "roots": case.roots, "scripts": format!("{:?}", case.scripts), "schedule": schedule});
            begin_case(shared, &format!("e2b {}", case.name), rv.clone(), "e2:c05-stuck-outside-scheduler");
            let (obs, tr) = run_market(case, schedule, 3000);
            end_case(shared);
            match &tr.end {
                RunEnd::Deadlock(d) => abort_on(shared, &a.out, "e2:c05-market-deadlock", format!("{}: {d}; schedule {:?}; log {:?}", case.name, schedule, tr.log), rv),
                RunEnd::Horizon => abort_on(shared, &a.out, "e2:c05-market-non-termination", format!("{}: more than 3000 scheduling steps; schedule {:?}", case.name, schedule), rv),
                RunEnd::AllExited => {}
            }
            let mut vs: Vec<(String, String)> = Vec::new();
            let mut count: BTreeMap<u32, usize> = BTreeMap::new();
            for (_, j) in &obs.processed {
                *count.entry(*j).or_insert(0) += 1;
            }
            for (j, c) in &count {
                if *c > 1 {
                    vs.push(("e2:c05-market-job-handed-out-twice".into(), format!("job {j} was processed {c} times: {:?}", obs.processed)));
                }
            }
            if normal {
                for j in 0..case.tree.len() as u32 {
                    if !count.contains_key(&j) {
                        vs.push(("e2:c05-market-job-lost".into(), format!("job {j} was never processed although no worker stopped early: {:?}", obs.processed)));
                    }
                }
            }
            for w in &obs.panicked {
                if !matches!(case.scripts[*w], Script::PanicAfter(_)) {
                    vs.push(("e2:c05-market-call-panicked".into(), format!("worker {w} panicked inside a job market call although its script never panics: {:?}", obs.processed)));
                }
            }
            if obs.exits != nw {
                vs.push(("e2:c05-market-worker-stuck".into(), format!("{} of {nw} workers exited", obs.exits)));
            }
            let mut jobs: Vec<(usize, u32)> = obs.processed.clone();
            jobs.sort();
            outcomes.insert(format!("{:?}", jobs));
            let mut r = shared.lock().unwrap();
            r.evaluations += 1;
            r.nontrivial += 1;
            r.traces += 1;
            r.transitions += tr.steps as u64;
            r.states += obs.processed.len() as u64;
            let mut ok = true;
            for (k, w) in vs {
                ok = false;
                r.violation(&k, format!("{}: {w}; schedule {:?}", case.name, schedule), rv.clone());
            }
            (tr, ok)
        };
        let finished = ex.explore(vec![], &mut run);
        let mut r = shared.lock().unwrap();
        r.outcome(format!("{}:{}", case.name, outcomes.len()));
        r.count("market_executions", ex.executions);
        r.count("market_distinct_work_distributions", outcomes.len() as u64);
        if ex.capped {
            r.cap(format!("market {}: execution cap {} reached at preemption bound {}", case.name, max_exec, bound));
        }
        if !finished {
            r.notes.push(format!("market {}: exploration stopped at the first violating schedule", case.name));
        }
        r.sample(2, || json!({"market_case": case.name, "preemption_bound": bound, "executions": ex.executions, "max_steps": ex.max_steps, "distinct_work_distributions": outcomes.len()}));
    }
}

pub fn run_c05(a: &Args, shared: &SharedReport) {
    let th = a.tier == "thorough";
    {
        let mut r = shared.lock().unwrap();
        r.rule = "every schedule of the real worker threads at their hook points (lock, condition wait, notify_one choice, yield points before shared-map accesses) up to the preemption bound, for each (model, strategy, threads, block size, stop reason) case and each job-market case; each schedule is one execution of the real code; non-trivial = all (>= 2 threads)".into();
        r.bounds = json!({"preemption_bound": if th {3} else {2}, "checker_cases": "9 zoo graphs x {bfs,dfs,on_demand} x threads x block, + finish_when / target / model panic / dfs+symmetry / simulation cases", "threads": if th {vec![2,3]} else {vec![2]},
            "market_cases": "8 job trees (chains, binary trees, two roots, fans of 4-7) x {normal, early return, panic} x workers; 2 workers: preemption bound 4 (thorough: unbounded), 3 workers: bound 2 (3), 4 workers on the fans: bound 1 (2)", "execution_cap_per_case": if th {"20000 (checker cases), 50000 (market cases)"} else {"8000"}, "horizon_steps": 5000});
    }
    harness_b(a, shared, th);
    harness_a(a, shared, th, "C05");
    // on-demand with several workers and several control requests before the run to completion (free-running; the
    // verdict here is termination: join must return, and with everything the single-threaded check evaluates)
    if a.shard == 0 {
        let run = crate::engines::e1::Runner { shared, checks: vec!["c01", "c03"] };
        for (_name, m) in zoo_models() {
            if m.panic_on.is_some() || m.panic_thread.is_some() {
                continue;
            }
            let orc = Oracle::new(&m);
            for t in [2usize, 3, 4] {
                for k in 0..m.inits.len().max(1) {
                    run.case(&m, &orc, &Config { threads: t, block: Some(1), ..Config::plain(Strategy::OnDemandProbe(k)) }, None);
                }
            }
        }
    }
}

// ---- C12 (vi): timeouts ----------------------------------------------------------------------------

pub fn run_c12_timeouts(a: &Args, shared: &SharedReport) {
    let th = a.tier == "thorough";
    let bound = if th { 2 } else { 1 };
    // (a) unexpired timeout: under "time advances only when nothing else can run" the run must finish
    //     with the clock still at zero and the same results as without a timeout.
    let mut idx = 0u64;
    for (name, m) in zoo_models().into_iter().take(if th { 8 } else { 4 }) {
        for st in [Strategy::Bfs, Strategy::Dfs, Strategy::OnDemand] {
            for t in if th { vec![1usize, 2, 3] } else { vec![1usize, 2] } {
                idx += 1;
                if idx % a.nshards != a.shard {
                    continue;
                }
                let cfg = Config { threads: t, block: Some(1), ..Config::plain(st.clone()) };
                let to = Timeout { secs: 1_000_000, policy: ClockPolicy::Mintime };
                let case = ACase { name: format!("{name}/{}/T{t}/unexpired-timeout", st.short()), model: m.clone(), cfg: cfg.clone(), stop: "exhaustion" };
                let mut ex = Explorer::new(bound, if th { 4000 } else { 400 });
                let mut run = |schedule: &[usize]| {
                    let mut rv = replay_value(&m, &cfg, &["e2t"]);
                    rv["engine"] = json!("e2timeout");
                    rv["schedule"] = json!(schedule);
                    begin_case(shared, &case.name, rv.clone(), "e2:c12-stuck-outside-scheduler");
                    let (obs, tr) = run_scheduled(&m, &cfg, Some(&to), schedule, 5000);
                    end_case(shared);
                    match &tr.end {
                        RunEnd::Deadlock(d) => abort_on(shared, &a.out, &format!("e2:c12-timeout-deadlock:{}", st.short()), format!("{}: {d}; schedule {:?}", case.name, schedule), rv),
                        RunEnd::Horizon => abort_on(shared, &a.out, &format!("e2:c12-timeout-non-termination:{}", st.short()), format!("{}: more than 5000 steps; schedule {:?}", case.name, schedule), rv),
                        RunEnd::AllExited => {}
                    }
                    let mut vs = check_a(&case, &obs, &tr);
                    if tr.clock_at_workers_done > 0 {
                        vs.push((format!("e2:c12-unexpired-timeout-delays-workers:{}", st.short()), format!("the check could only finish after virtual time advanced to {} ns: a worker was waiting for the timer thread's sleep", tr.clock_at_workers_done)));
                    }
                    let mut r = shared.lock().unwrap();
                    r.evaluations += 1;
                    r.nontrivial += 1;
                    r.traces += 1;
                    r.transitions += tr.steps as u64;
                    r.states += obs.visited.len() as u64;
                    r.outcome(format!("unexpired:{}:{}", case.name, obs.visited.len()));
                    let mut ok = true;
                    for (k, w) in vs {
                        ok = false;
                        r.violation(&k.replace("c05", "c12"), format!("{}: {w}; schedule {:?}", case.name, schedule), rv.clone());
                    }
                    (tr, ok)
                };
                ex.explore(vec![], &mut run);
                let mut r = shared.lock().unwrap();
                r.count("timeout_unexpired_executions", ex.executions);
                if ex.capped {
                    r.cap(format!("{}: execution cap reached", case.name));
                }
            }
        }
    }
    // (b) expiring timeout on an effectively unbounded model: the timer may fire after any number
    //     of worker decisions; afterwards every worker must exit after starting at most a few more
    //     blocks, for every thread count.
    // shapes: a binary tree (frontiers grow) and a chain (every worker queue holds exactly one state)
    for (shape, branching, depth) in [("bigtree", 2u64, 40u32), ("chain", 1u64, 1_000_000u32)] {
      for st in ["bfs", "dfs", "on_demand", "simulation"] {
        if shape == "chain" && st == "simulation" {
            continue; // a simulation trace of a million states only ends by itself
        }
        for t in if th { vec![1usize, 2, 3] } else { vec![1usize, 2] } {
            let positions: Vec<usize> = if th { vec![0, 1, 2, 3, 5, 8, 13, 21, 34, 55] } else if shape == "chain" { vec![0, 5, 23] } else { vec![0, 2, 5, 11, 23] };
            // before the expiry the workers run either under the default policy (the running thread goes on: with a
            // narrow frontier the others never even start) or round-robin (every worker has started: on a narrow
            // frontier all but one sit in the market waiting for work when the timeout fires)
            for (pos, rr) in positions.iter().flat_map(|p| [(*p, false), (*p, true)]) {
                if rr && (t == 1 || pos == 0) {
                    continue;
                }
                idx += 1;
                if idx % a.nshards != a.shard {
                    continue;
                }
                // the configured timeout: whole and fractional seconds (the expiry test must not round)
                let millis: u64 = [1000, 1500, 400, 2900][(idx % 4) as usize];
                let name = format!("{shape}/{st}/T{t}/expiring-timeout-{millis}ms/fire-after-{pos}{}", if rr { "/round-robin" } else { "" });
                let rv = json!({"engine": "e2expire", "shape": shape, "strategy": st, "threads": t, "fire_after_decisions": pos, "round_robin": rr, "timeout_ms": millis});
                begin_case(shared, &name, rv.clone(), "e2:c12-stuck-outside-scheduler");
                let timer = t; // thread id of "timeout"
                let horizon = 600;
                let mut choose = |k: usize, _n: usize, opts: &[usize], _threads: &[TState]| -> usize {
                    if k < pos {
                        if rr {
                            let want = k % t;
                            opts.iter().position(|o| *o == want).unwrap_or(0)
                        } else {
                            0
                        }
                    } else {
                        // from now on the timer thread runs whenever it can
                        opts.iter().position(|o| *o == timer).unwrap_or(0)
                    }
                };
                let (evaluated, tr) = run_big(t, st, millis, &mut choose, horizon, if st == "simulation" { 10 } else { depth }, branching);
                end_case(shared);
                // blocks started per worker after the timer thread exited
                let timer_exit = tr.log.iter().position(|(th_id, l)| *th_id == timer && l == "exit");
                let mut blocks_after: BTreeMap<usize, usize> = BTreeMap::new();
                if let Some(te) = timer_exit {
                    for (th_id, l) in &tr.log[te..] {
                        if l == "yield block-end" || l == "yield sim-trace" {
                            *blocks_after.entry(*th_id).or_insert(0) += 1;
                        }
                    }
                }
                {
                    let mut r = shared.lock().unwrap();
                    r.evaluations += 1;
                    r.nontrivial += 1;
                    r.traces += 1;
                    r.transitions += tr.steps as u64;
                    r.states += evaluated as u64;
                    r.outcome(format!("expire:{st}:T{t}:{pos}:{:?}", tr.end == RunEnd::AllExited));
                    r.count("timeout_expiring_executions", 1);
                    r.sample(7, || json!({"case": name, "steps": tr.steps, "evaluated_states": evaluated, "blocks_started_after_expiry": blocks_after}));
                }
                // the market may only be closed once the timeout has really expired, and not much later
                if let Some(te) = timer_exit {
                    let _ = te;
                    if let Some(c) = tr.timer_exit_clock {
                        // not before the timeout has expired, and within two of the timer thread's one-second naps after it
                        let (lo, hi) = (millis as u128 * 1_000_000, (millis as u128 + 2_000) * 1_000_000);
                        if c < lo || c > hi {
                            let mut r = shared.lock().unwrap();
                            r.violation(&format!("e2:c12-timeout-wrong-deadline:{st}"), format!("{name}: timeout({millis} ms) closed the check at virtual time {} ms", c / 1_000_000), rv.clone());
                        }
                    }
                }
                match &tr.end {
                    RunEnd::AllExited => {
                        let worst = blocks_after.values().copied().max().unwrap_or(0);
                        if worst > 3 {
                            let mut r = shared.lock().unwrap();
                            r.violation(&format!("e2:c12-timeout-late:{st}"), format!("{name}: after the timeout closed the check a worker started {worst} more blocks before stopping"), rv.clone());
                        }
                    }
                    RunEnd::Deadlock(d) => abort_on(shared, &a.out, &format!("e2:c12-timeout-deadlock:{st}"), format!("{name}: {d}"), rv),
                    RunEnd::Horizon => {
                        let what = if timer_exit.is_some() {
                            format!("{name}: the timeout expired and closed the check, but after {} further scheduling steps ({:?} blocks started per worker) the workers are still running", tr.steps, blocks_after)
                        } else {
                            format!("{name}: the timer thread could not even observe the expiry within {} scheduling steps", tr.steps)
                        };
                        abort_on(shared, &a.out, &format!("e2:c12-timeout-not-honoured:{st}:T{t}"), what, rv)
                    }
                }
            }
        }
      }
    }
}

fn run_big(threads: usize, strategy: &str, millis: u64, choose: &mut dyn FnMut(usize, usize, &[usize], &[TState]) -> usize, horizon: usize, depth: u32, branching: u64) -> (usize, RunTrace) {
    let s = sched();
    let nm = names(threads, true);
    let workers: Vec<usize> = (0..threads).collect();
    let all: Vec<usize> = (0..nm.len()).collect();
    crate::hooks::set_block_limit(Some(2));
    s.begin(&nm);
    let evaluated = Arc::new(Mutex::new(0usize));
    let e2 = Arc::clone(&evaluated);
    let b = BigTree { depth, branching }.checker().threads(threads).timeout(Duration::from_millis(millis)).visitor(move |_p: Path<(u32, u64), u64>| {
        *e2.lock().unwrap() += 1;
    });
    fn fin<C: Checker<BigTree>>(c: C, rtc: bool, between: &mut dyn FnMut() -> bool) {
        if rtc {
            c.run_to_completion();
        }
        if between() {
            let _ = catch_unwind(AssertUnwindSafe(move || {
                let _ = c.join();
            }));
        } else {
            // workers are parked for good; never join
            std::mem::forget(c);
        }
    }
    let mut trace = None;
    let mut between = || {
        let tr = drive_with(&s, &workers, &all, choose, ClockPolicy::Anytime, horizon);
        let ok = tr.end == RunEnd::AllExited;
        trace = Some(tr);
        ok
    };
    match strategy {
        "bfs" => fin(b.spawn_bfs(), false, &mut between),
        "dfs" => fin(b.spawn_dfs(), false, &mut between),
        "on_demand" => fin(b.spawn_on_demand(), true, &mut between),
        _ => fin(b.target_state_count(100_000_000).spawn_simulation(3, UniformChooser), false, &mut between),
    };
    let tr = trace.unwrap();
    if tr.end == RunEnd::AllExited {
        s.end();
    }
    crate::hooks::set_block_limit(None);
    let n = *evaluated.lock().unwrap();
    (n, tr)
}

pub fn replay(v: &Value) -> Vec<(String, String)> {
    let mut out = Vec::new();
    match v["engine"].as_str().unwrap_or("") {
        "e2a" | "e2timeout" => {
            let m: GraphModel = serde_json::from_value(v["model"].clone()).expect("model");
            let cfg: Config = serde_json::from_value(v["config"].clone()).expect("config");
            let schedule: Vec<usize> = serde_json::from_value(v["schedule"].clone()).unwrap_or_default();
            let to = if v["engine"] == "e2timeout" { Some(Timeout { secs: 1_000_000, policy: ClockPolicy::Mintime }) } else { None };
            let (obs, tr) = run_scheduled(&m, &cfg, to.as_ref(), &schedule, 5000);
            println!("end: {:?}; steps {}; clock at workers done {}", tr.end, tr.steps, tr.clock_at_workers_done);
            let n = tr.log.len();
            println!("first 60 log entries: {:?}", &tr.log[..n.min(60)]);
            println!("last 20 log entries: {:?}", &tr.log[n.saturating_sub(20)..]);
            // determinism: the same schedule must give the same observation log
            if tr.end == RunEnd::AllExited {
                let (_, tr2) = run_scheduled(&m, &cfg, to.as_ref(), &schedule, 5000);
                if tr2.log != tr.log {
                    out.push(("machinery:nondeterministic-replay".into(), "two replays of the same schedule produced different logs".into()));
                }
                let case = ACase { name: "replay".into(), model: m, cfg, stop: "exhaustion" };
                println!("visited {:?} discoveries {:?}", obs.visited.iter().map(|p| p.last().unwrap().0).collect::<Vec<_>>(), obs.disc);
                out.extend(check_a(&case, &obs, &tr));
            } else {
                out.push(("e2:not-all-exited".into(), format!("{:?}", tr.end)));
            }
        }
        _ => println!("re-run the check; the failing case is: {}", v),
    }
    out
}
