//! E3 — the actor-model transition relation against the reference interpreter (C06 C07 C09).

use crate::asys::*;
use crate::report::*;
use crate::zoo::*;
use crate::Args;
use serde_json::{json, Value};
use stateright::actor::*;
use stateright::*;
use std::collections::{BTreeMap, BTreeSet};
use std::panic::{catch_unwind, AssertUnwindSafe};
use std::sync::{Arc, Mutex};

const UNIVERSE: [Env; 5] = [(0, 1, 0), (1, 0, 0), (0, 1, 1), (1, 1, 0), (0, 9, 0)];

/// every network content of the kind within the bound (<= `max` copies from the envelope universe)
pub fn networks(kind: NetKind, max: usize) -> Vec<RNet> {
    let mut seqs: Vec<Vec<Env>> = vec![vec![]];
    let mut layer: Vec<Vec<Env>> = vec![vec![]];
    for _ in 0..max {
        let mut next = Vec::new();
        for s in &layer {
            for e in UNIVERSE {
                let mut s2 = s.clone();
                s2.push(e);
                next.push(s2);
            }
        }
        seqs.extend(next.iter().cloned());
        layer = next;
    }
    let mut set = BTreeSet::new();
    for s in seqs {
        let mut n = RNet::empty(kind);
        for e in s {
            n.send(e);
        }
        if let RNet::Dup(es, _) = &n {
            for last in [None, Some((0u8, 1u8, 0u8)), Some((1, 0, 0))] {
                set.insert(RNet::Dup(es.clone(), last));
            }
        } else {
            set.insert(n);
        }
    }
    set.into_iter().collect()
}

type TC = (Vec<u8>, Vec<u8>, Vec<(&'static str, Vec<u8>)>, Vec<(&'static str, Vec<u8>)>);

fn tc_small() -> Vec<TC> {
    vec![
        (vec![], vec![], vec![], vec![]),
        (vec![0], vec![1], vec![("x", vec![0, 1])], vec![]),
        (vec![0, 1], vec![], vec![("x", vec![0]), ("y", vec![1])], vec![("y", vec![1])]),
    ]
}
fn tc_full() -> Vec<TC> {
    let mut v = Vec::new();
    for t0 in [vec![], vec![0u8], vec![1u8], vec![0, 1]] {
        for t1 in [vec![], vec![1u8]] {
            for c0 in [vec![], vec![("y", vec![1u8])], vec![("x", vec![0u8, 1])], vec![("x", vec![0]), ("y", vec![1])]] {
                for c1 in [vec![], vec![("y", vec![1u8])]] {
                    v.push((t0.clone(), t1.clone(), c0.clone(), c1.clone()));
                }
            }
        }
    }
    v
}

fn mk_state(net: &RNet, tc: &TC, local: (u8, u8), up: (bool, bool)) -> RState {
    let mut s = RState {
        local: vec![local.0, local.1],
        up: vec![up.0, up.1],
        timers: vec![tc.0.iter().copied().collect(), tc.1.iter().copied().collect()],
        choices: vec![
            tc.2.iter().map(|(k, l)| (k.to_string(), l.clone())).collect(),
            tc.3.iter().map(|(k, l)| (k.to_string(), l.clone())).collect(),
        ],
        net: net.clone(),
        hist: vec![],
    };
    // a crashed actor has no timers or pending choices (they are discarded by the crash)
    for i in 0..2 {
        if !s.up[i] {
            s.timers[i].clear();
            s.choices[i].clear();
        }
    }
    s
}

/// The constructed (not necessarily reachable) system states of DESIGN §4 C06.
pub fn constructed_states(kind: NetKind, thorough: bool) -> Vec<RState> {
    let nets = networks(kind, 2);
    let mut set = BTreeSet::new();
    let ups = [(true, true), (false, true), (true, false)];
    for net in &nets {
        for tc in tc_small() {
            for up in ups {
                set.insert(mk_state(net, &tc, (0, 0), up));
            }
        }
    }
    let few: Vec<RNet> = vec![nets[0].clone(), nets[nets.len() / 2].clone()];
    for net in &few {
        for tc in tc_full() {
            for up in ups {
                set.insert(mk_state(net, &tc, (0, 0), up));
                if thorough {
                    set.insert(mk_state(net, &tc, (1, 0), up));
                }
            }
        }
    }
    set.into_iter().collect()
}

fn norm(real: Option<SysState>, s: &RState) -> RState {
    match real {
        None => s.clone(),
        Some(x) => from_real(&x),
    }
}

fn allowed_norm(allowed: Vec<Option<RState>>, s: &RState) -> Vec<RState> {
    allowed.into_iter().map(|o| o.unwrap_or_else(|| s.clone())).collect()
}

fn diff(a: &RState, b: &RState) -> String {
    let mut d = Vec::new();
    if a.local != b.local {
        d.push(format!("actor states {:?} vs {:?}", a.local, b.local));
    }
    if a.up != b.up {
        d.push(format!("up flags {:?} vs {:?}", a.up, b.up));
    }
    if a.timers != b.timers {
        d.push(format!("timers {:?} vs {:?}", a.timers, b.timers));
    }
    if a.choices != b.choices {
        d.push(format!("random choices {:?} vs {:?}", a.choices, b.choices));
    }
    if a.net != b.net {
        d.push(format!("network {:?} vs {:?}", a.net, b.net));
    }
    if a.hist != b.hist {
        d.push(format!("history {:?} vs {:?}", a.hist, b.hist));
    }
    d.join("; ")
}

fn sorted<T: Ord + Clone>(v: &[T]) -> Vec<T> {
    let mut v = v.to_vec();
    v.sort();
    v
}

fn real_actions(m: &Sys, s: &SysState) -> Vec<RAct> {
    let mut acts = Vec::new();
    m.actions(s, &mut acts);
    acts.iter().map(act_from_real).collect()
}

/// which kind of action, for violation keys
fn akind(a: &RAct) -> &'static str {
    match a {
        RAct::Deliver(..) => "deliver",
        RAct::Drop(..) => "drop",
        RAct::Timeout(..) => "timeout",
        RAct::Crash(..) => "crash",
        RAct::Select(..) => "select",
    }
}
fn kname(k: NetKind) -> &'static str {
    match k {
        NetKind::Ordered => "ordered",
        NetKind::NonDup => "nondup",
        NetKind::Dup => "dup",
    }
}

/// Compare the enabled-action multisets. `strict_missing`: a missing real action is a violation for
/// the action kinds in this list (others are only noted).
fn compare_actions(prefix: &str, cfg: &SysCfg, s: &RState, real: &[RAct], r: &mut Report, rv: &Value) {
    let want = sorted(&RefSys::enabled(cfg, s));
    let got = sorted(real);
    if want == got {
        return;
    }
    let mut wc: BTreeMap<&RAct, i64> = BTreeMap::new();
    for a in &want {
        *wc.entry(a).or_insert(0) += 1;
    }
    for a in &got {
        *wc.entry(a).or_insert(0) -= 1;
    }
    for (a, c) in wc {
        if c < 0 {
            r.violation(&format!("{prefix}:extra-action:{}:{}", akind(a), kname(cfg.kind)), format!("actions() offers {:?} ({} time(s) too many) in state {:?} cfg {:?}", a, -c, s, cfg), rv.clone());
        } else if c > 0 {
            r.violation(&format!("{prefix}:missing-action:{}:{}", akind(a), kname(cfg.kind)), format!("actions() does not offer {:?} in state {:?} cfg {:?}", a, s, cfg), rv.clone());
        }
    }
}

fn one_entry_actors(n: usize, who: usize, local: u8, ev: &Ev, out: &Output) -> Vec<Tab> {
    (0..n)
        .map(|i| if i == who { Tab::new(vec![((local, ev.clone()), out.clone())]) } else { Tab::default() })
        .collect()
}

/// One real step vs. the reference. Returns a description of the disagreement.
pub fn step_conforms(cfg: &SysCfg, s: &RState, real_s: &SysState, a: &RAct, out: &Output) -> Result<(), String> {
    let n = s.local.len();
    let actors = match RefSys::event_of(a) {
        Some((who, ev)) if who < n => one_entry_actors(n, who, s.local[who], &ev, out),
        _ => (0..n).map(|_| Tab::default()).collect(),
    };
    let m = build_sys(cfg, actors, &RNet::empty(cfg.kind));
    let real = catch_unwind(AssertUnwindSafe(|| m.next_state(real_s, act_to_real(a))));
    let real = match real {
        Ok(x) => x,
        Err(e) => return Err(format!("next_state panicked: {}", crate::run::panic_msg(&e))),
    };
    let got = norm(real, s);
    let allowed = allowed_norm(RefSys::step(cfg, s, a, out), s);
    if allowed.contains(&got) {
        Ok(())
    } else {
        Err(format!("real successor differs from the reference: {}", diff(&got, &allowed[0])))
    }
}

// ---- C06 -----------------------------------------------------------------------------------------

pub fn run_c06(a: &Args, shared: &SharedReport) {
    let th = a.tier == "thorough";
    {
        let mut r = shared.lock().unwrap();
        r.rule = "every (constructed system state x enabled action x handler output from the menu) triple per network kind x history mode, plus every pair of on_start outputs, plus every reachable state/edge of the scripted zoo; non-trivial = the handler output has at least one command or changes the state".into();
        r.bounds = json!({"actors": 2, "output_menu": if th {"{Keep,Touch,Set} x command lists of length <=2 over a 16-command alphabet (819); lists of length 3 on the empty-network states"} else {"{Keep,Touch,Set} x command lists of length <=2 over a 16-command alphabet (819)"},
            "states": "networks with <=2 envelopes from a 5-envelope universe (self-send, unknown destination, repeated message) x timer sets x random-choice maps x crash flags", "kinds": ["ordered","nondup","dup"], "history": ["off","all","only a"], "zoo": "10 scripted systems x 3 kinds x lossy x crashes<=1"});
    }
    let menu = output_menu(2, 7);
    let menu3: Vec<Output> = if th { output_menu(3, 7).into_iter().filter(|o| o.cmds.len() == 3).collect() } else { vec![] };
    let mut case_idx = 0u64;
    for kind in [NetKind::Ordered, NetKind::NonDup, NetKind::Dup] {
        let states = constructed_states(kind, th);
        for hist in [HistMode::Off, HistMode::All, HistMode::OnlyA] {
            let cfg = SysCfg { kind, lossy: true, max_crashes: 2, hist };
            for (si, s) in states.iter().enumerate() {
                case_idx += 1;
                if case_idx % a.nshards != a.shard {
                    continue;
                }
                let real_s = to_real(s);
                let probe = build_sys(&cfg, vec![Tab::default(), Tab::default()], &RNet::empty(kind));
                let rv = json!({"engine": "e3step", "cfg": cfg, "state": s});
                begin_case(shared, "c06 step", rv.clone(), "machinery:hang");
                let acts = real_actions(&probe, &real_s);
                let mut r = shared.lock().unwrap();
                r.states += 1;
                if hist == HistMode::Off {
                    compare_actions("e3:c06", &cfg, s, &acts, &mut r, &rv);
                }
                let enabled = RefSys::enabled(&cfg, s);
                for act in &enabled {
                    let outs: Vec<&Output> = if RefSys::event_of(act).is_some() {
                        let mut v: Vec<&Output> = menu.iter().collect();
                        if s.net.len() == 0 && si % 3 == 0 {
                            v.extend(menu3.iter());
                        }
                        v
                    } else {
                        vec![&menu[0]]
                    };
                    for out in outs {
                        r.evaluations += 1;
                        r.transitions += 1;
                        r.traces += 1;
                        if !out.cmds.is_empty() || out.st != StOp::Keep {
                            r.nontrivial += 1;
                        }
                        match step_conforms(&cfg, s, &real_s, act, out) {
                            Ok(()) => {
                                if r.evaluations % 1009 == 0 {
                                    r.outcome(format!("{}:{}:{:?}:{}", akind(act), kname(kind), out.st, out.cmds.len()));
                                }
                            }
                            Err(e) => {
                                let first = out.cmds.first().map(|c| format!("{:?}", c).split('(').next().unwrap().to_string()).unwrap_or("none".into());
                                r.violation(
                                    &format!("e3:c06-step:{}:{}:{}", akind(act), kname(kind), first),
                                    format!("{e}; state {:?} action {:?} output {:?} cfg {:?}", s, act, out, cfg),
                                    json!({"engine": "e3step", "cfg": cfg, "state": s, "action": act, "output": out}),
                                );
                            }
                        }
                        r.sample(400_003, || json!({"cfg": cfg, "state": s, "action": act, "handler_output": out}));
                    }
                }
                drop(r);
                end_case(shared);
            }
        }
    }
    init_states_check(a, shared, th);
    zoo_conformance(a, shared, "e3:c06-zoo", th);
}

fn init_states_check(a: &Args, shared: &SharedReport, th: bool) {
    let lists = cmd_lists(if th { 2 } else { 1 });
    let lists2 = cmd_lists(2);
    let mut idx = 0u64;
    for kind in [NetKind::Ordered, NetKind::NonDup, NetKind::Dup] {
        for hist in [HistMode::Off, HistMode::All] {
            let cfg = SysCfg { kind, lossy: false, max_crashes: 0, hist };
            for l0 in &lists2 {
                idx += 1;
                if idx % a.nshards != a.shard {
                    continue;
                }
                for l1 in &lists {
                    let starts = vec![Output { st: StOp::Set(3), cmds: l0.clone() }, Output { st: StOp::Set(4), cmds: l1.clone() }];
                    let mut init_net = RNet::empty(kind);
                    init_net.send((1, 0, 1));
                    let tabs: Vec<Tab> = starts.iter().map(|o| Tab::new(vec![((ANY, Ev::Start), o.clone())])).collect();
                    let m = build_sys(&cfg, tabs, &init_net);
                    let want = RefSys::init(&cfg, &starts, &init_net);
                    let got = catch_unwind(AssertUnwindSafe(|| m.init_states()));
                    let mut r = shared.lock().unwrap();
                    r.evaluations += 1;
                    r.traces += 1;
                    r.transitions += 2;
                    if !l0.is_empty() || !l1.is_empty() {
                        r.nontrivial += 1;
                    }
                    let rv = json!({"engine": "e3init", "cfg": cfg, "starts": starts});
                    match got {
                        Err(e) => r.violation(&format!("e3:c06-init:panic:{}", kname(kind)), format!("init_states panicked: {} for on_start outputs {:?}", crate::run::panic_msg(&e), starts), rv),
                        Ok(v) => {
                            if v.len() != 1 || from_real(&v[0]) != want {
                                r.violation(&format!("e3:c06-init:{}", kname(kind)), format!("init_states differs from the reference for on_start outputs {:?}: {}", starts, if v.len() == 1 { diff(&from_real(&v[0]), &want) } else { format!("{} init states", v.len()) }), rv);
                            }
                        }
                    }
                }
            }
        }
    }
}

pub fn zoo_cfgs(th: bool) -> Vec<SysCfg> {
    let mut v = Vec::new();
    for kind in [NetKind::Ordered, NetKind::NonDup, NetKind::Dup] {
        for lossy in [false, true] {
            for max_crashes in if th { vec![0usize, 1, 2] } else { vec![0usize, 1] } {
                v.push(SysCfg { kind, lossy, max_crashes, hist: if lossy { HistMode::Off } else { HistMode::OnlyA } });
            }
        }
    }
    v
}

/// Explore every reachable state of every zoo system with `xplore` (canonical keys) and check each
/// state's action set and each edge against the reference.
pub fn zoo_conformance(a: &Args, shared: &SharedReport, prefix: &str, th: bool) {
    let mut idx = 0u64;
    for z in zoo() {
        for cfg in zoo_cfgs(th) {
            idx += 1;
            if idx % a.nshards != a.shard {
                continue;
            }
            let m = build_sys(&cfg, z.tabs(), &z.net(cfg.kind));
            let rv = json!({"engine": "e3zoo", "zoo": z.name, "cfg": cfg});
            begin_case(shared, &format!("zoo {} {:?}", z.name, cfg), rv.clone(), "machinery:hang");
            let g = xplore(&m, from_real, if th { 40_000 } else { 4000 }, if th { 18 } else { 10 });
            let tabs = z.tabs();
            // the builder describes the same model whatever the order of its calls
            let mut order_diff: Vec<String> = Vec::new();
            for order in [1u8, 2] {
                let m2 = build_sys_order(&cfg, z.tabs(), &z.net(cfg.kind), order);
                let g2 = xplore(&m2, from_real, if th { 40_000 } else { 4000 }, if th { 18 } else { 10 });
                // (exploration order may differ between two instances: compare as maps from state to its action multiset)
                let acts = |g: &XGraph<SysState, SysAction, RState>| -> BTreeMap<RState, Vec<RAct>> { g.keys.iter().cloned().zip(g.edges.iter().map(|es| sorted(&es.iter().map(|(a, _)| act_from_real(a)).collect::<Vec<_>>()))).collect() };
                if acts(&g2) != acts(&g) {
                    order_diff.push(format!("builder call order {order}: {} states instead of {} (or different actions)", g2.keys.len(), g.keys.len()));
                }
            }
            let mut r = shared.lock().unwrap();
            for d in order_diff {
                r.violation(&format!("{prefix}:builder-order:{}", kname(cfg.kind)), format!("zoo {} cfg {:?}: {d}", z.name, cfg), rv.clone());
            }
            // init state vs reference
            let want0 = RefSys::init(&cfg, &z.starts(), &z.net(cfg.kind));
            if g.keys.first() != Some(&want0) {
                r.violation(&format!("{prefix}:init:{}", kname(cfg.kind)), format!("zoo {}: init state differs from the reference: {}", z.name, g.keys.first().map(|k| diff(k, &want0)).unwrap_or_default()), rv.clone());
            }
            for (i, key) in g.keys.iter().enumerate() {
                r.states += 1;
                if g.edges[i].is_empty() && g.depth[i] >= (if th { 18 } else { 10 }) {
                    continue; // frontier of the depth bound, not expanded
                }
                let acts: Vec<RAct> = g.edges[i].iter().map(|(a, _)| act_from_real(a)).collect();
                compare_actions(prefix, &cfg, key, &acts, &mut r, &rv);
                // the derived views of the same transition relation: next_steps / next_states
                {
                    let s_real = &g.states[i];
                    let mut raw = Vec::new();
                    m.actions(s_real, &mut raw);
                    let want: Vec<(RAct, RState)> = raw.into_iter().filter_map(|a| { let ra = act_from_real(&a); m.next_state(s_real, a).map(|n| (ra, from_real(&n))) }).collect();
                    let steps: Vec<(RAct, RState)> = m.next_steps(s_real).into_iter().map(|(a, n)| (act_from_real(&a), from_real(&n))).collect();
                    let states: Vec<RState> = m.next_states(s_real).iter().map(from_real).collect();
                    r.transitions += 2;
                    if steps != want {
                        r.violation(&format!("{prefix}:next-steps:{}", kname(cfg.kind)), format!("zoo {}: next_steps() of {:?} is {:?}, actions() x next_state() gives {:?}", z.name, key, steps, want), rv.clone());
                    }
                    if states != want.iter().map(|(_, n)| n.clone()).collect::<Vec<_>>() {
                        r.violation(&format!("{prefix}:next-states:{}", kname(cfg.kind)), format!("zoo {}: next_states() of {:?} disagrees with actions() x next_state()", z.name, key), rv.clone());
                    }
                }
                for (ra, tgt) in &g.edges[i] {
                    let act = act_from_real(ra);
                    r.evaluations += 1;
                    r.transitions += 1;
                    r.nontrivial += 1;
                    let out = match RefSys::event_of(&act) {
                        Some((who, ev)) if who < tabs.len() => tabs[who].lookup(key.local[who], &ev),
                        _ => Output::nop(),
                    };
                    let got = match tgt {
                        Some(j) => g.keys[*j].clone(),
                        None => key.clone(),
                    };
                    // an edge to a state cut by the exploration cap is not comparable
                    if tgt.is_none() && g.capped {
                        continue;
                    }
                    let allowed = allowed_norm(RefSys::step(&cfg, key, &act, &out), key);
                    if !allowed.contains(&got) {
                        r.violation(&format!("{prefix}:edge:{}:{}", akind(&act), kname(cfg.kind)), format!("zoo {} cfg {:?}: from {:?} by {:?} (handler output {:?}): {}", z.name, cfg, key, act, out, diff(&got, &allowed[0])), rv.clone());
                    }
                }
            }
            r.traces += 1;
            r.outcome(format!("zoo:{}:{}:{}", z.name, kname(cfg.kind), g.states.len()));
            if g.capped {
                r.count("zoo_graphs_capped_by_depth_or_size", 1);
            }
            r.sample(7, || json!({"zoo": z.name, "cfg": cfg, "reachable_states": g.states.len(), "transitions": g.transitions}));
            drop(r);
            end_case(shared);
        }
    }
}

// ---- C07 -----------------------------------------------------------------------------------------

/// Consume an iterator with a guard so that a non-terminating iterator is a verdict, not a hang.
fn take_guarded<'a>(it: impl Iterator<Item = Envelope<&'a u8>>, guard: usize) -> (Vec<Env>, bool) {
    let mut v = Vec::new();
    for e in it {
        v.push((usize::from(e.src) as u8, usize::from(e.dst) as u8, *e.msg));
        if v.len() > guard {
            return (v, true);
        }
    }
    (v, false)
}

fn net_views_check(net: &RNet, r: &mut Report) {
    let real = net_to_real(net);
    let k = kname(net.kind());
    let rv = json!({"engine": "e3net", "net": net});
    r.evaluations += 1;
    r.states += 1;
    r.transitions += 3;
    r.traces += 1;
    if net.len() >= 2 {
        r.nontrivial += 1;
    }
    // construction round trip (also checks send())
    if net_from_real(&real) != *net {
        r.violation(&format!("e3:c07-send:{k}"), format!("building {:?} through send() gives {:?}", net, net_from_real(&real)), rv.clone());
    }
    let want_len = net.len();
    if real.len() != want_len {
        r.violation(&format!("e3:c07-len:{k}"), format!("len()={} but the network holds {} copies: {:?}", real.len(), want_len, net), rv.clone());
    }
    let (all, runaway) = take_guarded(real.iter_all(), 10 * want_len + 10);
    if runaway {
        r.violation(&format!("e3:c07-iter-all-nonterminating:{k}"), format!("iter_all() yielded more than {} items for a network of {} copies: {:?}", 10 * want_len + 10, want_len, net), rv.clone());
    } else if sorted(&all) != sorted(&net.all()) {
        r.violation(&format!("e3:c07-iter-all:{k}"), format!("iter_all() yields {:?}, contents are {:?}", sorted(&all), sorted(&net.all())), rv.clone());
    }
    let (del, runaway) = take_guarded(real.iter_deliverable(), 10 * want_len + 10);
    if runaway || sorted(&del) != sorted(&net.deliverable()) {
        r.violation(&format!("e3:c07-iter-deliverable:{k}"), format!("iter_deliverable() yields {:?}, deliverable are {:?}", sorted(&del), sorted(&net.deliverable())), rv.clone());
    }
    r.outcome(format!("net:{k}:{}:{}", want_len, net.deliverable().len()));
}

/// Ghost ledger for the trace-level statement of C07. Sends are taken from the scripted handlers'
/// outputs (ground truth independent of the network code), consumption from the executed actions.
#[derive(Clone, Default)]
struct Ledger {
    sent: BTreeMap<Env, i64>,
    consumed: BTreeMap<Env, i64>,
    /// per flow: messages sent in order / delivered in order / number consumed (delivered or dropped)
    flow_sent: BTreeMap<(u8, u8), Vec<u8>>,
    flow_delivered: BTreeMap<(u8, u8), Vec<u8>>,
    flow_consumed: BTreeMap<(u8, u8), usize>,
    /// dup: envelopes sent and not dropped since
    present: BTreeSet<Env>,
}

impl Ledger {
    fn send(&mut self, e: Env) {
        *self.sent.entry(e).or_insert(0) += 1;
        self.flow_sent.entry((e.0, e.1)).or_default().push(e.2);
        self.present.insert(e);
    }
    fn outstanding(&self, kind: NetKind) -> Vec<Env> {
        match kind {
            NetKind::Dup => self.present.iter().copied().collect(),
            _ => {
                let mut v = Vec::new();
                for (e, s) in &self.sent {
                    let c = self.consumed.get(e).copied().unwrap_or(0);
                    for _ in 0..(s - c).max(0) {
                        v.push(*e);
                    }
                }
                v
            }
        }
    }
}

fn is_subsequence(delivered: &[u8], sent: &[u8]) -> bool {
    let mut j = 0;
    for d in delivered {
        while j < sent.len() && sent[j] != *d {
            j += 1;
        }
        if j == sent.len() {
            return false;
        }
        j += 1;
    }
    true
}

struct Walk<'a> {
    m: &'a Sys,
    tabs: Vec<Tab>,
    cfg: &'a SysCfg,
    max_depth: usize,
    zoo_name: &'a str,
    paths: u64,
    steps: u64,
    viol: Vec<(String, String)>,
}

impl<'a> Walk<'a> {
    fn bad(&mut self, key: &str, what: String, tr: &[RAct]) {
        if self.viol.len() < 20 {
            let k = kname(self.cfg.kind);
            self.viol.push((format!("e3:c07-trace:{key}:{k}"), format!("zoo {} cfg {:?} trace {:?}: {what}", self.zoo_name, self.cfg, tr)));
        }
    }
    fn check_views(&mut self, s: &SysState, led: &Ledger, trace: &[RAct]) {
        let kind = self.cfg.kind;
        let want = sorted(&led.outstanding(kind));
        if s.network.len() != want.len() {
            self.bad("len", format!("len()={} but {} copies were sent and not consumed: {:?}", s.network.len(), want.len(), want), trace);
        }
        let (all, runaway) = take_guarded(s.network.iter_all(), 10 * want.len() + 10);
        if runaway {
            self.bad("iter-all-nonterminating", format!("iter_all() does not terminate on a network of {} copies", want.len()), trace);
        } else if sorted(&all) != want {
            self.bad("iter-all", format!("iter_all() yields {:?} but sent-and-not-consumed is {:?}", sorted(&all), want), trace);
        }
        let (del, _) = take_guarded(s.network.iter_deliverable(), 10 * want.len() + 10);
        let want_del: Vec<Env> = match kind {
            NetKind::Ordered => {
                let mut v = Vec::new();
                for (f, sent) in &led.flow_sent {
                    let c = led.flow_consumed.get(f).copied().unwrap_or(0);
                    if c < sent.len() {
                        v.push((f.0, f.1, sent[c]));
                    }
                }
                v
            }
            _ => {
                let mut v = want.clone();
                v.dedup();
                v
            }
        };
        if sorted(&del) != sorted(&want_del) {
            self.bad("iter-deliverable", format!("iter_deliverable() yields {:?}, expected {:?}", sorted(&del), sorted(&want_del)), trace);
        }
    }
    fn go(&mut self, s: &SysState, led: &Ledger, depth: usize, trace: &mut Vec<RAct>) {
        self.check_views(s, led, trace);
        if depth >= self.max_depth {
            self.paths += 1;
            return;
        }
        let mut acts = Vec::new();
        self.m.actions(s, &mut acts);
        let kind = self.cfg.kind;
        let key = from_real(s);
        let mut any = false;
        for a in acts {
            let ra = act_from_real(&a);
            if matches!(ra, RAct::Drop(..)) && !self.cfg.lossy {
                trace.push(ra.clone());
                self.bad("drop-on-lossless", "a Drop step is offered on a network that is not lossy".into(), trace);
                trace.pop();
            }
            let nx = match self.m.next_state(s, a) {
                None => continue,
                Some(n) => n,
            };
            any = true;
            self.steps += 1;
            let mut led2 = led.clone();
            trace.push(ra.clone());
            let consumed: Option<Env> = match &ra {
                RAct::Deliver(a, b, m) | RAct::Drop(a, b, m) => Some((*a, *b, *m)),
                _ => None,
            };
            if let Some(e) = consumed {
                let is_drop = matches!(ra, RAct::Drop(..));
                if led.sent.get(&e).copied().unwrap_or(0) == 0 {
                    self.bad("never-sent", format!("{:?} but that envelope was never sent", ra), trace);
                }
                match kind {
                    NetKind::Dup => {
                        if !led.present.contains(&e) {
                            self.bad("after-drop", format!("{:?} after the envelope was dropped and not sent again", ra), trace);
                        }
                        if is_drop {
                            led2.present.remove(&e);
                        }
                    }
                    _ => {
                        let avail = led.sent.get(&e).copied().unwrap_or(0) - led.consumed.get(&e).copied().unwrap_or(0);
                        if avail <= 0 {
                            self.bad("not-available", format!("{:?} but every sent copy was already delivered or dropped", ra), trace);
                        }
                        *led2.consumed.entry(e).or_insert(0) += 1;
                        *led2.flow_consumed.entry((e.0, e.1)).or_insert(0) += 1;
                    }
                }
                if !is_drop && kind == NetKind::Ordered {
                    led2.flow_delivered.entry((e.0, e.1)).or_default().push(e.2);
                    let sent = led2.flow_sent.get(&(e.0, e.1)).cloned().unwrap_or_default();
                    let del = led2.flow_delivered.get(&(e.0, e.1)).cloned().unwrap_or_default();
                    if !is_subsequence(&del, &sent) {
                        self.bad("order", format!("flow {:?}: delivered {:?} is not an in-order, duplicate-free subsequence of sent {:?}", (e.0, e.1), del, sent), trace);
                    }
                }
            }
            // sends of the handler that ran (ground truth: the script)
            if let Some((who, ev)) = RefSys::event_of(&ra) {
                if who < self.tabs.len() {
                    let out = self.tabs[who].lookup(key.local[who], &ev);
                    for c in &out.cmds {
                        if let Cmd::Send(d, m) = c {
                            led2.send((who as u8, *d, *m));
                        }
                    }
                }
            }
            self.go(&nx, &led2, depth + 1, trace);
            trace.pop();
        }
        if !any {
            self.paths += 1;
        }
    }
}

pub fn run_c07(a: &Args, shared: &SharedReport) {
    let th = a.tier == "thorough";
    {
        let mut r = shared.lock().unwrap();
        r.rule = "(i) every network content within the bound per kind: send/len/iter_all/iter_deliverable vs the reference multiset, and every deliver/drop step through next_state; (ii) every path to the depth bound of the zoo systems per kind x lossiness with a ghost ledger per envelope; non-trivial = network holds >= 2 copies / path has >= 2 steps".into();
        r.bounds = json!({"network_contents": if th {"<=4 envelopes from a 5-envelope universe (views), <=3 (steps)"} else {"<=3 envelopes from a 5-envelope universe (views and steps)"}, "trace_depth": if th {18} else {10}, "kinds": ["ordered","nondup","dup"], "lossy": [true,false]});
    }
    // (0) a network chosen by name has the semantics of that name
    if a.shard == 0 {
        let mut r = shared.lock().unwrap();
        for name in Network::<u8>::names() {
            r.evaluations += 1;
            r.traces += 1;
            r.nontrivial += 1;
            let parsed: Result<Network<u8>, _> = name.parse();
            let rv = json!({"engine": "e3net", "name": name});
            match parsed {
                Err(err) => r.violation("e3:c07-name-not-parsed", format!("Network::names() lists {name:?} but parsing it fails: {err}"), rv),
                Ok(n0) => {
                    // the same envelope twice, then another message on the same flow (sent by a start handler)
                    let sender = Tab::new(vec![((ANY, Ev::Start), Output { st: StOp::Set(0), cmds: vec![Cmd::Send(1, 1), Cmd::Send(1, 1), Cmd::Send(1, 2)] })]);
                    let sys: Sys = ActorModel::new(HistMode::Off, Vec::new()).actors(vec![sender, Tab::default()]).init_network(n0.clone());
                    let n = sys.init_states().remove(0).network;
                    let del: Vec<u8> = sorted(&n.iter_deliverable().map(|x| *x.msg).collect::<Vec<_>>());
                    let (want_len, want_del): (usize, Vec<u8>) = match name {
                        "ordered" => (3, vec![1]),
                        "unordered_duplicating" => (2, vec![1, 2]),
                        "unordered_nonduplicating" => (3, vec![1, 2]),
                        _ => (n.len(), del.clone()),
                    };
                    if n.len() != want_len || del != want_del {
                        r.violation("e3:c07-name-semantics", format!("the network parsed from {name:?} holds {} copies with deliverable {:?} after sending [1,1,2] on one flow; that name promises {want_len} copies and deliverable {:?}", n.len(), del, want_del), rv);
                    }
                }
            }
        }
        if "no_such_network".parse::<Network<u8>>().is_ok() {
            r.violation("e3:c07-name-not-parsed", "an unknown network name was accepted".into(), json!({"engine": "e3net"}));
        }
        drop(r);
    }
    // (i) views on every constructible network
    if a.shard == 0 {
        for kind in [NetKind::Ordered, NetKind::NonDup, NetKind::Dup] {
            for net in networks(kind, if th { 4 } else { 3 }) {
                let rv = json!({"engine": "e3net", "net": net});
                begin_case(shared, "network views", rv, "machinery:hang");
                let mut r = shared.lock().unwrap();
                net_views_check(&net, &mut r);
                drop(r);
                end_case(shared);
            }
        }
    }
    // (i) deliver/drop/send steps through next_state on every constructed state
    let sends: Vec<Output> = output_menu(2, 7).into_iter().filter(|o| o.cmds.iter().all(|c| matches!(c, Cmd::Send(..))) && o.st == StOp::Touch).collect();
    let mut idx = 0u64;
    for kind in [NetKind::Ordered, NetKind::NonDup, NetKind::Dup] {
        for lossy in [true, false] {
            let cfg = SysCfg { kind, lossy, max_crashes: 0, hist: HistMode::Off };
            for net in networks(kind, 3) {
                idx += 1;
                if idx % a.nshards != a.shard {
                    continue;
                }
                // timers and a pending random choice are set so that sends caused by Timeout / SelectRandom steps
                // (re-sends with no delivery in between) meet every network content too
                let s = mk_state(&net, &tc_small()[1], (0, 0), (true, true));
                let real_s = to_real(&s);
                let probe = build_sys(&cfg, vec![Tab::default(), Tab::default()], &RNet::empty(kind));
                let acts = real_actions(&probe, &real_s);
                let rv = json!({"engine": "e3step", "cfg": cfg, "state": s});
                let mut r = shared.lock().unwrap();
                r.states += 1;
                compare_actions("e3:c07", &cfg, &s, &acts, &mut r, &rv);
                for act in RefSys::enabled(&cfg, &s) {
                    let outs: Vec<&Output> = if matches!(act, RAct::Drop(..) | RAct::Crash(..)) { vec![&sends[0]] } else { sends.iter().collect() };
                    for out in outs {
                        r.evaluations += 1;
                        r.transitions += 1;
                        r.traces += 1;
                        r.nontrivial += 1;
                        if let Err(e) = step_conforms(&cfg, &s, &real_s, &act, out) {
                            r.violation(&format!("e3:c07-step:{}:{}", akind(&act), kname(kind)), format!("{e}; state {:?} action {:?} output {:?}", s, act, out), json!({"engine": "e3step", "cfg": cfg, "state": s, "action": act, "output": out}));
                        }
                    }
                }
            }
        }
    }
    // (ii) all paths with the ghost ledger
    let depth = if th { 18 } else { 10 };
    let mut idx = 0u64;
    for z in zoo() {
        for kind in [NetKind::Ordered, NetKind::NonDup, NetKind::Dup] {
            // (lossy, crash budget): crashes are not transport steps - a message addressed to a crashed actor stays where it is
            for (lossy, crashes) in [(true, 0usize), (false, 0), (false, 1), (true, 1)] {
                idx += 1;
                if idx % a.nshards != a.shard {
                    continue;
                }
                if crashes > 0 && lossy && !th {
                    continue;
                }
                let depth = if crashes > 0 { depth.min(if th { 12 } else { 7 }) } else { depth };
                let cfg = SysCfg { kind, lossy, max_crashes: crashes, hist: HistMode::Off };
                let m = build_sys(&cfg, z.tabs(), &z.net(kind));
                let rv = json!({"engine": "e3trace", "zoo": z.name, "cfg": cfg, "depth": depth});
                begin_case(shared, &format!("c07 trace {} {:?}", z.name, cfg), rv.clone(), "machinery:hang");
                let init = m.init_states().remove(0);
                let mut led = Ledger::default();
                for e in &z.init_net {
                    led.send(*e);
                }
                for (i, st) in z.starts().iter().enumerate() {
                    for c in &st.cmds {
                        if let Cmd::Send(d, mm) = c {
                            led.send((i as u8, *d, *mm));
                        }
                    }
                }
                let mut w = Walk { m: &m, tabs: z.tabs(), cfg: &cfg, max_depth: depth, zoo_name: z.name, paths: 0, steps: 0, viol: vec![] };
                w.go(&init, &led, 0, &mut Vec::new());
                let mut r = shared.lock().unwrap();
                r.evaluations += w.paths;
                r.nontrivial += w.paths;
                r.traces += w.paths;
                r.transitions += w.steps;
                r.outcome(format!("trace:{}:{}:{}:{}:{}", z.name, kname(kind), lossy, crashes, w.paths));
                for (k, what) in w.viol {
                    r.violation(&k, what, rv.clone());
                }
                r.sample(5, || json!({"zoo": z.name, "cfg": cfg, "paths": w.paths, "steps": w.steps}));
                drop(r);
                end_case(shared);
            }
        }
    }
}

// ---- C09 -----------------------------------------------------------------------------------------

fn with_up(s: &RState, i: usize) -> RState {
    let mut t = s.clone();
    t.up[i] = true;
    t
}

pub fn run_c09(a: &Args, shared: &SharedReport) {
    let th = a.tier == "thorough";
    {
        let mut r = shared.lock().unwrap();
        r.rule = "(i) Crash offered <=> up and budget left, on every constructed state x budget 0..3; (ii) crash step vs reference; (iii) differential crashed-vs-uncrashed on every (state, action, output); monitor over every reachable zoo state; (iv) the real bfs/dfs visit exactly the xplore-reachable set incl. every crashed-vector; (v) identical peers with a crash budget: dfs with .symmetry() evaluates every symmetry class of crashed configurations the plain search reaches; non-trivial = state has a crashed actor or the action is a crash".into();
        r.bounds = json!({"actors": "2 (constructed), 2-3 (zoo)", "budget": if th {"0..3"} else {"0..2"}, "zoo_depth": if th {18} else {10}, "outputs": if th {"819 (command lists of length <=2 x 3 state ops)"} else {"51 (command lists of length <=1 x 3 state ops)"}});
    }
    let menu = output_menu(if th { 2 } else { 1 }, 7);
    let mut idx = 0u64;
    for kind in [NetKind::Ordered, NetKind::NonDup, NetKind::Dup] {
        let states = constructed_states(kind, th);
        for s in &states {
            idx += 1;
            if idx % a.nshards != a.shard {
                continue;
            }
            let real_s = to_real(s);
            let mut r = shared.lock().unwrap();
            r.states += 1;
            // (i) crash offers for every budget
            for k in 0..=3usize {
                let cfg = SysCfg { kind, lossy: false, max_crashes: k, hist: HistMode::Off };
                let probe = build_sys(&cfg, vec![Tab::default(), Tab::default()], &RNet::empty(kind));
                let acts = real_actions(&probe, &real_s);
                let rv = json!({"engine": "e3step", "cfg": cfg, "state": s});
                r.evaluations += 1;
                r.transitions += acts.len() as u64;
                r.traces += 1;
                let down = s.up.iter().filter(|u| !**u).count();
                for i in 0..s.up.len() {
                    let offered = acts.contains(&RAct::Crash(i as u8));
                    let want = s.up[i] && down < k;
                    if offered != want {
                        r.violation(&format!("e3:c09-crash-{}", if offered { "offered-beyond-budget-or-down" } else { "not-offered" }), format!("budget {k}: Crash({i}) offered={offered} but actor up={} and {} already down; state {:?}", s.up[i], down, s), rv.clone());
                    }
                }
                compare_actions("e3:c09", &cfg, s, &acts, &mut r, &rv);
                // (ii) the crash step itself
                for i in 0..s.up.len() {
                    if s.up[i] && down < k {
                        r.nontrivial += 1;
                        if let Err(e) = step_conforms(&cfg, s, &real_s, &RAct::Crash(i as u8), &menu[0]) {
                            r.violation("e3:c09-crash-step", format!("{e}; state {:?} Crash({i})", s), json!({"engine": "e3step", "cfg": cfg, "state": s, "action": RAct::Crash(i as u8), "output": menu[0]}));
                        }
                    }
                }
            }
            // (iii) differential: with i crashed, every action not addressed to i behaves as with i up
            let cfg = SysCfg { kind, lossy: true, max_crashes: 2, hist: HistMode::All };
            for i in 0..s.up.len() {
                if s.up[i] {
                    continue;
                }
                let s_up = with_up(s, i);
                let real_up = to_real(&s_up);
                for act in RefSys::enabled(&cfg, s) {
                    let addressed = match &act {
                        RAct::Deliver(_, d, _) => *d as usize == i,
                        RAct::Timeout(j, _) | RAct::Select(j, _, _) | RAct::Crash(j) => *j as usize == i,
                        RAct::Drop(..) => false,
                    };
                    if addressed {
                        if let RAct::Deliver(sr, d, m) = &act {
                            // delivery to a crashed actor is ignored and the envelope stays
                            for out in [&menu[0], &menu[menu.len() - 1]] {
                                let n = s.local.len();
                                let m_sys = build_sys(&cfg, one_entry_actors(n, i, s.local[i], &Ev::Msg(*sr, *m), out), &RNet::empty(kind));
                                let nx = m_sys.next_state(&real_s, act_to_real(&act));
                                r.evaluations += 1;
                                r.transitions += 1;
                                r.traces += 1;
                                r.nontrivial += 1;
                                if let Some(nx) = nx {
                                    if from_real(&nx) != *s {
                                        r.violation("e3:c09-delivered-to-crashed", format!("Deliver to crashed actor {d} changed the state: {}", diff(&from_real(&nx), s)), json!({"engine": "e3step", "cfg": cfg, "state": s, "action": act, "output": out}));
                                    }
                                }
                            }
                        }
                        continue;
                    }
                    let outs: Vec<&Output> = if RefSys::event_of(&act).is_some() { menu.iter().collect() } else { vec![&menu[0]] };
                    for out in outs {
                        let n = s.local.len();
                        let actors = match RefSys::event_of(&act) {
                            Some((who, ev)) if who < n => one_entry_actors(n, who, s.local[who], &ev, out),
                            _ => (0..n).map(|_| Tab::default()).collect(),
                        };
                        let m_sys = build_sys(&cfg, actors, &RNet::empty(kind));
                        let n1 = norm(m_sys.next_state(&real_s, act_to_real(&act)), s);
                        let mut n2 = norm(m_sys.next_state(&real_up, act_to_real(&act)), &s_up);
                        n2.up[i] = false;
                        r.evaluations += 1;
                        r.transitions += 2;
                        r.traces += 1;
                        r.nontrivial += 1;
                        if n1 != n2 {
                            r.violation(&format!("e3:c09-differential:{}", akind(&act)), format!("with actor {i} crashed, {:?} (output {:?}) behaves differently than with it up: {}; state {:?}", act, out, diff(&n1, &n2), s), json!({"engine": "e3step", "cfg": cfg, "state": s, "action": act, "output": out}));
                        }
                    }
                }
            }
        }
    }
    // monitor over all reachable zoo states + (iv) the checker explores them
    let mut idx = 0u64;
    for z in zoo() {
        for kind in [NetKind::Ordered, NetKind::NonDup, NetKind::Dup] {
            for k in if th { vec![1usize, 2, 3] } else { vec![1usize, 2] } {
                for lossy in [false, true] {
                    idx += 1;
                    if idx % a.nshards != a.shard {
                        continue;
                    }
                    if lossy && k > 1 {
                        continue;
                    }
                    let cfg = SysCfg { kind, lossy, max_crashes: k, hist: HistMode::Off };
                    let rv = json!({"engine": "e3crashzoo", "zoo": z.name, "cfg": cfg});
                    begin_case(shared, &format!("c09 zoo {} {:?}", z.name, cfg), rv.clone(), "machinery:hang");
                    let m = build_sys(&cfg, z.tabs(), &z.net(kind));
                    let g = xplore(&m, from_real, 30_000, 64);
                    // the crash budget is the one given to the builder, wherever in the call chain it was given
                    let mut order_diff = Vec::new();
                    if !lossy {
                        for order in [1u8, 2] {
                            let g2 = xplore(&build_sys_order(&cfg, z.tabs(), &z.net(kind), order), from_real, 30_000, 64);
                            if g2.keys.iter().collect::<BTreeSet<_>>() != g.keys.iter().collect::<BTreeSet<_>>() {
                                let c = |g: &XGraph<SysState, SysAction, RState>| g.keys.iter().filter(|k| k.up.iter().any(|u| !*u)).count();
                                order_diff.push(format!("builder call order {order}: {} reachable states ({} with a crashed actor) instead of {} ({})", g2.keys.len(), c(&g2), g.keys.len(), c(&g)));
                            }
                        }
                    }
                    let mut r = shared.lock().unwrap();
                    for d in order_diff {
                        r.violation("e3:c09-builder-order", format!("zoo {} budget {k}: {d}", z.name), rv.clone());
                    }
                    let mut crashed_sets = BTreeSet::new();
                    for (i, key) in g.keys.iter().enumerate() {
                        r.states += 1;
                        let down: Vec<usize> = (0..key.up.len()).filter(|j| !key.up[*j]).collect();
                        crashed_sets.insert(down.clone());
                        if !down.is_empty() {
                            r.nontrivial += 1;
                        }
                        for j in &down {
                            if !key.timers[*j].is_empty() || !key.choices[*j].is_empty() {
                                r.violation("e3:c09-zoo-crashed-keeps-timers", format!("zoo {}: reachable state has crashed actor {j} with pending timers/choices: {:?}", z.name, key), rv.clone());
                            }
                        }
                        for (ra, tgt) in &g.edges[i] {
                            r.transitions += 1;
                            let act = act_from_real(ra);
                            match &act {
                                RAct::Timeout(j, _) | RAct::Select(j, _, _) if !key.up[*j as usize] => {
                                    r.violation("e3:c09-zoo-crashed-acts", format!("zoo {}: {:?} enabled although the actor is crashed in {:?}", z.name, act, key), rv.clone());
                                }
                                RAct::Deliver(_, d, _) if (*d as usize) < key.up.len() && !key.up[*d as usize] => {
                                    if let Some(t) = tgt {
                                        if g.keys[*t] != *key {
                                            r.violation("e3:c09-zoo-delivered-to-crashed", format!("zoo {}: {:?} to a crashed actor changed the state", z.name, act), rv.clone());
                                        }
                                    }
                                }
                                _ => {}
                            }
                        }
                    }
                    // every subset of size <= k must appear (in these systems a crash is always possible)
                    let n = z.actors.len();
                    for sub in 0..(1u32 << n) {
                        let set: Vec<usize> = (0..n).filter(|j| (sub >> j) & 1 == 1).collect();
                        if set.len() <= k && !crashed_sets.contains(&set) {
                            r.violation("e3:c09-zoo-crash-set-unreachable", format!("zoo {} budget {k}: no reachable state has exactly actors {:?} down", z.name, set), rv.clone());
                        }
                    }
                    drop(r);
                    // (iv) the real checkers see exactly these states
                    for strat in ["bfs", "dfs"] {
                        let seen: Arc<Mutex<BTreeSet<RState>>> = Arc::new(Mutex::new(BTreeSet::new()));
                        let seen2 = Arc::clone(&seen);
                        let m2 = build_sys(&cfg, z.tabs(), &z.net(kind)).property(Expectation::Always, "true", |_, _| true);
                        let b = m2.checker().visitor(move |p: Path<SysState, SysAction>| {
                            seen2.lock().unwrap().insert(from_real(p.last_state()));
                        });
                        let c = if strat == "bfs" { let c = b.spawn_bfs().join(); (c.unique_state_count(), ()) } else { let c = b.spawn_dfs().join(); (c.unique_state_count(), ()) };
                        let seen = seen.lock().unwrap();
                        let mut r = shared.lock().unwrap();
                        r.evaluations += 1;
                        r.traces += 1;
                        let want: BTreeSet<RState> = g.keys.iter().cloned().collect();
                        if !g.capped {
                            let missed: Vec<&RState> = want.difference(&seen).collect();
                            if !missed.is_empty() {
                                let crashed_missed = missed.iter().filter(|s| s.up.iter().any(|u| !*u)).count();
                                r.violation(&format!("e3:c09-checker-misses-states:{strat}"), format!("zoo {} cfg {:?}: the {strat} checker evaluated {} of {} reachable states ({} of the missed ones have a crashed actor); e.g. missed {:?}", z.name, cfg, seen.len(), want.len(), crashed_missed, missed[0]), rv.clone());
                            }
                            if c.0 != want.len() {
                                r.violation(&format!("e3:c09-checker-unique-count:{strat}"), format!("zoo {} cfg {:?}: unique_state_count={} but {} states are reachable", z.name, cfg, c.0, want.len()), rv.clone());
                            }
                        } else {
                            r.count("zoo_graphs_capped", 1);
                        }
                        r.outcome(format!("crashzoo:{}:{}:{}:{}", z.name, kname(kind), k, want.len()));
                        r.sample(3, || json!({"zoo": z.name, "cfg": cfg, "reachable": want.len(), "checker_evaluated": seen.len(), "crashed_sets": crashed_sets}));
                    }
                    end_case(shared);
                }
            }
        }
    }
    // (v) crash configurations up to symmetry: identical peers, `.symmetry()` against the plain search
    crate::engines::c10::crashes_under_symmetry(a, shared, th);
}

// ---- replay ---------------------------------------------------------------------------------------

pub fn replay(v: &Value) -> Vec<(String, String)> {
    let engine = v["engine"].as_str().unwrap_or("");
    let mut out = Vec::new();
    match engine {
        "e3step" => {
            let cfg: SysCfg = serde_json::from_value(v["cfg"].clone()).expect("cfg");
            let s: RState = serde_json::from_value(v["state"].clone()).expect("state");
            let real_s = to_real(&s);
            println!("state: {:?}", s);
            let probe = build_sys(&cfg, (0..s.local.len()).map(|_| Tab::default()).collect(), &RNet::empty(cfg.kind));
            println!("real actions: {:?}", sorted(&real_actions(&probe, &real_s)));
            println!("ref  actions: {:?}", sorted(&RefSys::enabled(&cfg, &s)));
            if sorted(&real_actions(&probe, &real_s)) != sorted(&RefSys::enabled(&cfg, &s)) {
                out.push(("e3:actions".into(), "action sets differ".into()));
            }
            if !v["action"].is_null() {
                let act: RAct = serde_json::from_value(v["action"].clone()).expect("action");
                let o: Output = serde_json::from_value(v["output"].clone()).expect("output");
                if let Err(e) = step_conforms(&cfg, &s, &real_s, &act, &o) {
                    out.push(("e3:step".into(), e));
                }
            }
        }
        "e3net" => {
            let net: RNet = serde_json::from_value(v["net"].clone()).expect("net");
            let mut r = Report::new("replay");
            net_views_check(&net, &mut r);
            for v in r.violations {
                out.push((v.key, v.what));
            }
        }
        _ => {
            println!("replay of {engine}: re-run the check; the case is identified by zoo name and cfg: {}", v);
        }
    }
    out
}
