//! E4 — state identity (C04): equal values feed the same stream to any hasher, distinct ones do not.

use crate::asys::*;
use crate::engines::e3::{constructed_states, networks, zoo_cfgs};
use crate::report::*;
use crate::zoo::*;
use crate::Args;
use serde_json::json;
use stateright::actor::*;
use stateright::util::*;
use stateright::*;
use std::collections::BTreeMap;
use std::fmt::Debug;
use std::hash::{Hash, Hasher};

/// A hasher that records the exact sequence of write calls. Two values with the same record collide
/// under every hasher.
#[derive(Default)]
pub struct RecHasher(pub Vec<u8>);
impl Hasher for RecHasher {
    fn finish(&self) -> u64 {
        0
    }
    fn write(&mut self, bytes: &[u8]) {
        self.0.push(b'B');
        self.0.extend_from_slice(&(bytes.len() as u32).to_le_bytes());
        self.0.extend_from_slice(bytes);
    }
    fn write_u8(&mut self, i: u8) {
        self.0.push(b'1');
        self.0.push(i);
    }
    fn write_u16(&mut self, i: u16) {
        self.0.push(b'2');
        self.0.extend_from_slice(&i.to_le_bytes());
    }
    fn write_u32(&mut self, i: u32) {
        self.0.push(b'4');
        self.0.extend_from_slice(&i.to_le_bytes());
    }
    fn write_u64(&mut self, i: u64) {
        self.0.push(b'8');
        self.0.extend_from_slice(&i.to_le_bytes());
    }
    fn write_usize(&mut self, i: usize) {
        self.0.push(b'U');
        self.0.extend_from_slice(&(i as u64).to_le_bytes());
    }
    fn write_i8(&mut self, i: i8) {
        self.write_u8(i as u8)
    }
    fn write_i32(&mut self, i: i32) {
        self.write_u32(i as u32)
    }
    fn write_i64(&mut self, i: i64) {
        self.write_u64(i as u64)
    }
    fn write_isize(&mut self, i: isize) {
        self.write_usize(i as usize)
    }
}

pub fn log_of<T: Hash + ?Sized>(v: &T) -> Vec<u8> {
    let mut h = RecHasher::default();
    v.hash(&mut h);
    h.0
}

/// `vals`: (value, canonical identity = component-wise description built by the harness).
pub fn check_family<T: Hash + PartialEq + Debug>(r: &mut Report, fam: &str, vals: &[(T, String)], eq_pairs: bool) {
    let logs: Vec<Vec<u8>> = vals.iter().map(|(v, _)| log_of(v)).collect();
    let fps: Vec<u64> = vals.iter().map(|(v, _)| crate::hooks::fingerprint_of(v)).collect();
    let n = vals.len() as u64;
    r.states += n;
    r.evaluations += n;
    r.traces += n;
    // all unordered pairs are decided by grouping
    r.transitions += n * n.saturating_sub(1) / 2;
    let mut by_log: BTreeMap<&Vec<u8>, usize> = BTreeMap::new();
    let mut by_canon: BTreeMap<&String, usize> = BTreeMap::new();
    let mut by_fp: BTreeMap<u64, usize> = BTreeMap::new();
    for i in 0..vals.len() {
        let canon = &vals[i].1;
        match by_log.get(&logs[i]) {
            Some(&j) if vals[j].1 != *canon => {
                r.violation(&format!("e4:{fam}:distinct-values-same-hash-stream"), format!("{:?} and {:?} differ ({} vs {}) but feed the identical byte stream to the hasher", vals[j].0, vals[i].0, vals[j].1, canon), json!({"engine": "e4", "family": fam, "a": vals[j].1, "b": canon}));
            }
            Some(_) => {}
            None => {
                by_log.insert(&logs[i], i);
            }
        }
        match by_canon.get(canon) {
            Some(&j) => {
                if logs[j] != logs[i] {
                    r.violation(&format!("e4:{fam}:equal-values-different-hash-stream"), format!("{:?} and {:?} are the same value ({}) built differently but hash differently", vals[j].0, vals[i].0, canon), json!({"engine": "e4", "family": fam, "a": vals[j].1, "b": canon}));
                }
                if fps[i] != fps[j] {
                    r.violation(&format!("e4:{fam}:equal-values-different-fingerprint"), format!("{:?} and {:?} are the same value ({}) but have different fingerprints", vals[j].0, vals[i].0, canon), json!({"engine": "e4", "family": fam, "a": vals[j].1, "b": canon}));
                }
            }
            None => {
                by_canon.insert(canon, i);
            }
        }
        if fps[i] != 0 {
            match by_fp.get(&fps[i]) {
                Some(&j) if vals[j].1 != *canon => {
                    r.violation(&format!("e4:{fam}:distinct-values-same-fingerprint"), format!("{:?} and {:?} differ ({} vs {}) but have the same fingerprint {}", vals[j].0, vals[i].0, vals[j].1, canon, fps[i]), json!({"engine": "e4", "family": fam, "a": vals[j].1, "b": canon}));
                }
                Some(_) => {}
                None => {
                    by_fp.insert(fps[i], i);
                }
            }
        }
    }
    if by_canon.len() >= 2 {
        r.nontrivial += n;
    }
    r.outcome(format!("{fam}:values={}:distinct={}", n, by_canon.len()));
    if eq_pairs {
        for i in 0..vals.len() {
            for j in i..vals.len() {
                let same = vals[i].1 == vals[j].1;
                let eq = vals[i].0 == vals[j].0;
                if eq != same {
                    r.violation(&format!("e4:{fam}:{}", if eq { "eq-merges-distinct" } else { "eq-splits-equal" }), format!("{:?} == {:?} is {eq} but component-wise identity is {same} ({} vs {})", vals[i].0, vals[j].0, vals[i].1, vals[j].1), json!({"engine": "e4", "family": fam, "a": vals[i].1, "b": vals[j].1}));
                }
            }
        }
    }
    r.sample(1, || json!({"family": fam, "values": n, "distinct": by_canon.len(), "first": format!("{:?}", vals.first().map(|v| &v.0))}));
}

fn perms<T: Clone>(v: &[T]) -> Vec<Vec<T>> {
    if v.len() <= 1 {
        return vec![v.to_vec()];
    }
    let mut out = Vec::new();
    for i in 0..v.len() {
        let mut rest = v.to_vec();
        let x = rest.remove(i);
        for mut p in perms(&rest) {
            p.insert(0, x.clone());
            out.push(p);
        }
    }
    out
}

fn subsets(n: u8) -> Vec<Vec<u8>> {
    (0..(1u32 << n)).map(|m| (0..n).filter(|i| (m >> i) & 1 == 1).collect()).collect()
}

/// every way to build the set: insertion orders x capacity x hasher instance
fn build_sets(elems: &[u8]) -> Vec<HashableHashSet<u8>> {
    let mut v = Vec::new();
    for p in perms(elems) {
        let mut a = HashableHashSet::new();
        let mut b = HashableHashSet::with_capacity(64);
        let mut c: HashableHashSet<u8> = HashableHashSet::with_hasher(ahash::RandomState::with_seeds(1, 2, 3, 4));
        for x in &p {
            a.insert(*x);
            b.insert(*x);
            c.insert(*x);
        }
        // insert + remove of a foreign element leaves tombstones behind
        b.insert(99);
        b.remove(&99);
        v.push(a);
        v.push(b);
        v.push(c);
    }
    v
}

fn set_of(elems: &[u8]) -> HashableHashSet<u8> {
    elems.iter().copied().collect()
}

#[derive(Hash, PartialEq, Debug)]
struct TwoSets {
    a: HashableHashSet<u8>,
    b: HashableHashSet<u8>,
}

fn timers_of(elems: &[u8]) -> Timers<u8> {
    let mut t = Timers::new();
    for e in elems {
        t.set(*e);
    }
    t
}

pub fn run_c04(a: &Args, shared: &SharedReport) {
    let th = a.tier == "thorough";
    {
        let mut r = shared.lock().unwrap();
        r.rule = "every value of each family within the bound, built in every insertion order/capacity/hasher instance; all unordered pairs within a family are decided by grouping on the recorded hasher stream, on the real fingerprint and on the harness's component-wise identity; non-trivial = the family has >= 2 distinct identities".into();
        r.bounds = json!({"sets": "HashableHashSet<u8> over {0,1,2}", "maps": "HashableHashMap<u8,u8> keys {0,1,2} values {0,1}", "nesting": "set of sets, map of sets, (S,S), [S;2], Vec<S> len<=3, struct of two sets, Vec<Timers> len<=3",
            "networks": if th {"<=4 envelopes per kind"} else {"<=2 envelopes per kind"}, "clocks": "len<=3 components<=2", "actor_states": "all constructed states per kind (pairs) + all reachable states of the zoo per cfg (pairs) + systems of 1..130 actors differing in one per-actor component at every position",
            "testers": if th {"both testers over Register<char>: every well-formed history of 2 threads <=4 ops and 3 threads <=3 ops, start objects i/a (+b)"} else {"both testers over Register<char>: every well-formed history of 2 threads <=3 ops, start objects i/a (+b)"}});
    }
    let mut fam_idx = 0u64;
    let mut mine = |shared: &SharedReport, f: &mut dyn FnMut(&mut Report)| {
        fam_idx += 1;
        if fam_idx % a.nshards == a.shard {
            begin_case(shared, "e4 family", json!({"engine": "e4"}), "machinery:hang");
            let mut r = shared.lock().unwrap();
            f(&mut r);
            drop(r);
            end_case(shared);
        }
    };

    // 1. sets
    mine(shared, &mut |r| {
        let mut vals = Vec::new();
        for s in subsets(3) {
            for v in build_sets(&s) {
                vals.push((v, format!("{:?}", s)));
            }
        }
        check_family(r, "hashset", &vals, true);
    });
    // 2. maps
    mine(shared, &mut |r| {
        let mut vals = Vec::new();
        for code in 0..27u32 {
            // per key: absent / 0 / 1
            let pairs: Vec<(u8, u8)> = (0..3u8).filter_map(|k| match code / 3u32.pow(k as u32) % 3 { 0 => None, x => Some((k, (x - 1) as u8)) }).collect();
            for p in perms(&pairs) {
                let m1: HashableHashMap<u8, u8> = p.iter().copied().collect();
                let mut m2: HashableHashMap<u8, u8> = HashableHashMap::with_capacity(32);
                for (k, v) in &p {
                    m2.insert(*k, 1 - *v);
                    m2.insert(*k, *v);
                }
                vals.push((m1, format!("{:?}", pairs)));
                vals.push((m2, format!("{:?}", pairs)));
            }
        }
        check_family(r, "hashmap", &vals, true);
    });
    // 3. nested: set of sets, map of sets
    mine(shared, &mut |r| {
        let inner = subsets(2);
        let mut vals = Vec::new();
        for m in 0..(1u32 << inner.len()) {
            let chosen: Vec<Vec<u8>> = (0..inner.len()).filter(|i| (m >> i) & 1 == 1).map(|i| inner[i].clone()).collect();
            for p in perms(&chosen) {
                let s: HashableHashSet<HashableHashSet<u8>> = p.iter().map(|e| set_of(e)).collect();
                vals.push((s, format!("{:?}", chosen)));
            }
        }
        check_family(r, "set-of-sets", &vals, true);
        let mut vals = Vec::new();
        for a0 in 0..=4usize {
            for a1 in 0..=4usize {
                // 4 = key absent
                let mut desc = Vec::new();
                let mut m: HashableHashMap<u8, HashableHashSet<u8>> = HashableHashMap::new();
                if a1 < 4 {
                    m.insert(1, set_of(&inner[a1]));
                    desc.push((1, inner[a1].clone()));
                }
                if a0 < 4 {
                    m.insert(0, set_of(&inner[a0]));
                    desc.push((0, inner[a0].clone()));
                }
                desc.sort();
                vals.push((m, format!("{:?}", desc)));
            }
        }
        check_family(r, "map-of-sets", &vals, true);
    });
    // 4. side by side
    mine(shared, &mut |r| {
        let ss = subsets(3);
        let mut t = Vec::new();
        let mut arr = Vec::new();
        let mut st = Vec::new();
        for x in &ss {
            for y in &ss {
                t.push(((set_of(x), set_of(y)), format!("{:?}|{:?}", x, y)));
                arr.push(([set_of(x), set_of(y)], format!("{:?}|{:?}", x, y)));
                st.push((TwoSets { a: set_of(x), b: set_of(y) }, format!("{:?}|{:?}", x, y)));
            }
        }
        check_family(r, "tuple-of-sets", &t, true);
        check_family(r, "array-of-sets", &arr, true);
        check_family(r, "struct-of-sets", &st, true);
        let s2 = subsets(2);
        let mut vecs: Vec<(Vec<HashableHashSet<u8>>, String)> = vec![(vec![], "[]".into())];
        for x in &s2 {
            vecs.push((vec![set_of(x)], format!("[{:?}]", x)));
            for y in &s2 {
                vecs.push((vec![set_of(x), set_of(y)], format!("[{:?},{:?}]", x, y)));
                for z in &s2 {
                    vecs.push((vec![set_of(x), set_of(y), set_of(z)], format!("[{:?},{:?},{:?}]", x, y, z)));
                }
            }
        }
        check_family(r, "vec-of-sets", &vecs, true);
        // maps side by side
        let mut mm = Vec::new();
        let ms: Vec<Vec<(u8, u8)>> = vec![vec![], vec![(0, 0)], vec![(0, 1)], vec![(1, 0)], vec![(0, 0), (1, 0)]];
        for x in &ms {
            for y in &ms {
                let a: HashableHashMap<u8, u8> = x.iter().copied().collect();
                let b: HashableHashMap<u8, u8> = y.iter().copied().collect();
                mm.push(((a, b), format!("{:?}|{:?}", x, y)));
            }
        }
        check_family(r, "tuple-of-maps", &mm, true);
    });
    // 5. timers
    mine(shared, &mut |r| {
        let s2 = subsets(2);
        let mut one = Vec::new();
        for x in &s2 {
            for p in perms(x) {
                one.push((timers_of(&p), format!("{:?}", x)));
            }
        }
        check_family(r, "timers", &one, true);
        let mut vecs: Vec<(Vec<Timers<u8>>, String)> = Vec::new();
        for x in &s2 {
            for y in &s2 {
                vecs.push((vec![timers_of(x), timers_of(y)], format!("[{:?},{:?}]", x, y)));
                for z in &s2 {
                    vecs.push((vec![timers_of(x), timers_of(y), timers_of(z)], format!("[{:?},{:?},{:?}]", x, y, z)));
                }
            }
        }
        check_family(r, "vec-of-timers", &vecs, true);
    });
    // 6. networks
    for kind in [NetKind::Ordered, NetKind::NonDup, NetKind::Dup] {
        mine(shared, &mut |r| {
            let mut vals = Vec::new();
            for net in networks(kind, if th { 4 } else { 2 }) {
                let canon = format!("{:?}", net);
                vals.push((net_to_real(&net), canon.clone()));
                // unordered kinds: reversed send order builds the same network
                if kind != NetKind::Ordered {
                    let mut envs = net.all();
                    envs.reverse();
                    let mut n2 = RNet::empty(kind);
                    for e in envs {
                        n2.send(e);
                    }
                    if let (RNet::Dup(_, l2), RNet::Dup(_, l)) = (&mut n2, &net) {
                        *l2 = *l;
                    }
                    vals.push((net_to_real(&n2), canon));
                }
            }
            check_family(r, &format!("network-{:?}", kind), &vals, vals.len() < 3000);
        });
    }
    // 6b. a value's stream must not depend on what this thread hashed before (the containers keep a per-thread
    //     scratch buffer): small sets/maps, then one with 150 entries, then the small ones again
    mine(shared, &mut |r| {
        let smalls: Vec<HashableHashSet<u8>> = subsets(3).iter().map(|s| set_of(s)).collect();
        let small_maps: Vec<HashableHashMap<u8, u8>> = subsets(3).iter().map(|s| s.iter().map(|k| (*k, 1u8)).collect()).collect();
        let before: Vec<Vec<u8>> = smalls.iter().map(log_of).chain(small_maps.iter().map(log_of)).collect();
        let before_fp: Vec<u64> = smalls.iter().map(crate::hooks::fingerprint_of).chain(small_maps.iter().map(crate::hooks::fingerprint_of)).collect();
        for big in [150usize, 300, 1000] {
            let bs: HashableHashSet<u32> = (0..big as u32).collect();
            let bm: HashableHashMap<u32, u32> = (0..big as u32).map(|k| (k, k)).collect();
            let _ = log_of(&bs);
            let _ = crate::hooks::fingerprint_of(&bm);
            let after: Vec<Vec<u8>> = smalls.iter().map(log_of).chain(small_maps.iter().map(log_of)).collect();
            let after_fp: Vec<u64> = smalls.iter().map(crate::hooks::fingerprint_of).chain(small_maps.iter().map(crate::hooks::fingerprint_of)).collect();
            r.evaluations += after.len() as u64;
            r.traces += after.len() as u64;
            r.transitions += after.len() as u64;
            if after != before || after_fp != before_fp {
                r.violation("e4:hash-depends-on-thread-history", format!("after a collection of {big} entries was hashed on this thread, the small sets/maps feed a different stream to the hasher (or get another fingerprint) than before"), json!({"engine": "e4", "family": "history-dependence", "big": big}));
            }
        }
        r.outcome("hash-history-independence".into());
    });
    // 7. random choices
    mine(shared, &mut |r| {
        let lists: Vec<Option<Vec<u8>>> = vec![None, Some(vec![0]), Some(vec![1]), Some(vec![0, 1]), Some(vec![1, 0])];
        let mut vals = Vec::new();
        for x in &lists {
            for y in &lists {
                let mut rc = RandomChoices::default();
                let mut rc2 = RandomChoices::default();
                if let Some(l) = y {
                    rc.insert("y".into(), l.clone());
                }
                if let Some(l) = x {
                    rc.insert("x".into(), l.clone());
                    rc2.insert("x".into(), l.clone());
                }
                if let Some(l) = y {
                    rc2.insert("y".into(), vec![9]);
                    rc2.insert("y".into(), l.clone());
                }
                vals.push((rc, format!("x={:?} y={:?}", x, y)));
                vals.push((rc2, format!("x={:?} y={:?}", x, y)));
            }
        }
        check_family(r, "random-choices", &vals, true);
        let mut pairs = Vec::new();
        for (a, ca) in &vals {
            for (b, cb) in vals.iter().step_by(3) {
                pairs.push((vec![a.clone(), b.clone()], format!("{ca} || {cb}")));
            }
        }
        check_family(r, "vec-of-random-choices", &pairs, false);
    });
    // 8. vector clocks, dense maps
    mine(shared, &mut |r| {
        let mut vals = Vec::new();
        for len in 0..=3usize {
            for code in 0..3u32.pow(len as u32) {
                let v: Vec<u32> = (0..len).map(|i| code / 3u32.pow(i as u32) % 3).collect();
                let mut t = v.clone();
                while t.last() == Some(&0) {
                    t.pop();
                }
                vals.push((VectorClock::from(v), format!("{:?}", t)));
            }
        }
        check_family(r, "vector-clock", &vals, true);
        let pairs: Vec<((VectorClock, VectorClock), String)> = vals.iter().flat_map(|(a, ca)| vals.iter().map(move |(b, cb)| ((a.clone(), b.clone()), format!("{ca}|{cb}")))).collect();
        check_family(r, "tuple-of-clocks", &pairs, false);
        let mut dm = Vec::new();
        for len in 0..=3usize {
            for code in 0..2u32.pow(len as u32) {
                let v: Vec<u8> = (0..len).map(|i| ((code >> i) & 1) as u8).collect();
                let a: DenseNatMap<usize, u8> = DenseNatMap::from(v.clone());
                let mut b: DenseNatMap<usize, u8> = DenseNatMap::new();
                for (i, x) in v.iter().enumerate() {
                    b.insert(i, 7);
                    b.insert(i, *x);
                }
                let c: DenseNatMap<usize, u8> = v.iter().copied().enumerate().rev().collect();
                dm.push((a, format!("{:?}", v)));
                dm.push((b, format!("{:?}", v)));
                dm.push((c, format!("{:?}", v)));
            }
        }
        check_family(r, "dense-nat-map", &dm, true);
        // side by side: which of two adjacent maps holds a value must reach the hasher
        let dpairs: Vec<((DenseNatMap<usize, u8>, DenseNatMap<usize, u8>), String)> = dm.iter().step_by(3).flat_map(|(a, ca)| dm.iter().step_by(3).map(move |(b, cb)| ((a.clone(), b.clone()), format!("{ca}|{cb}")))).collect();
        check_family(r, "tuple-of-dense-nat-maps", &dpairs, false);
        let dvecs: Vec<(Vec<DenseNatMap<usize, u8>>, String)> = dpairs.iter().map(|((a, b), c)| (vec![a.clone(), b.clone()], c.clone())).chain(dm.iter().step_by(3).map(|(a, c)| (vec![a.clone()], c.clone()))).collect();
        check_family(r, "vec-of-dense-nat-maps", &dvecs, false);
    });
    // 8b. networks side by side (two networks of one kind in a tuple)
    for kind in [NetKind::Ordered, NetKind::NonDup, NetKind::Dup] {
        mine(shared, &mut |r| {
            let nets = networks(kind, if th { 3 } else { 1 });
            let mut vals = Vec::new();
            for a in &nets {
                for b in &nets {
                    vals.push(((net_to_real(a), net_to_real(b)), format!("{:?} || {:?}", a, b)));
                }
            }
            check_family(r, &format!("tuple-of-networks-{:?}", kind), &vals, false);
        });
    }
    // 9. ActorModelState: all pairs of constructed states per kind
    for kind in [NetKind::Ordered, NetKind::NonDup, NetKind::Dup] {
        mine(shared, &mut |r| {
            let mut vals = Vec::new();
            for s in constructed_states(kind, th) {
                let canon = format!("{:?}", s);
                vals.push((to_real(&s), canon.clone()));
                // with a non-empty history as well
                let mut s2 = s.clone();
                s2.hist = vec![(0, 0, 1, 0)];
                vals.push((to_real(&s2), format!("{:?}", s2)));
            }
            check_family(r, &format!("actor-state-{:?}", kind), &vals, vals.len() < 2500);
        });
    }
    // 9b. wide systems: one crash flag / timer / pending choice / local state, at every position, for actor counts on
    //     both sides of the machine word sizes (a packed or truncated encoding of a per-actor component shows here)
    for n in [1usize, 2, 7, 8, 9, 31, 32, 33, 63, 64, 65, 66, 127, 128, 129, 130] {
        mine(shared, &mut |r| {
            let base = RState { local: vec![0; n], up: vec![true; n], timers: vec![Default::default(); n], choices: vec![Default::default(); n], net: RNet::empty(NetKind::NonDup), hist: vec![] };
            let mut vals = vec![(to_real(&base), "base".to_string())];
            for i in 0..n {
                let mut a = base.clone();
                a.up[i] = false;
                vals.push((to_real(&a), format!("crashed@{i}")));
                let mut b = base.clone();
                b.timers[i].insert(1);
                vals.push((to_real(&b), format!("timer@{i}")));
                let mut c = base.clone();
                c.choices[i].insert("x".into(), vec![1]);
                vals.push((to_real(&c), format!("choice@{i}")));
                let mut d = base.clone();
                d.local[i] = 1;
                vals.push((to_real(&d), format!("local@{i}")));
                if i + 1 < n {
                    // two flags: the pair (i, i+1) against the single ones
                    let mut e = base.clone();
                    e.up[i] = false;
                    e.up[i + 1] = false;
                    vals.push((to_real(&e), format!("crashed@{i},{}", i + 1)));
                }
            }
            check_family(r, &format!("actor-state-wide-{n}"), &vals, n <= 33);
        });
    }
    // 10. ActorModelState: all pairs of reachable states of the zoo; and the end-to-end count
    for z in zoo() {
        for cfg in zoo_cfgs(true) {
            mine(shared, &mut |r| {
                let m = build_sys(&cfg, z.tabs(), &z.net(cfg.kind));
                let g = xplore(&m, from_real, 20_000, 64);
                let vals: Vec<(SysState, String)> = g.states.iter().zip(g.keys.iter()).map(|(s, k)| (s.clone(), format!("{:?}", k))).collect();
                check_family(r, "actor-state-reachable", &vals, vals.len() < 1500);
                if !g.capped {
                    let m2 = build_sys(&cfg, z.tabs(), &z.net(cfg.kind)).property(Expectation::Always, "true", |_, _| true);
                    let c = m2.checker().spawn_bfs().join();
                    r.evaluations += 1;
                    r.traces += 1;
                    if c.unique_state_count() != g.states.len() {
                        r.violation("e4:end-to-end:unique-state-count", format!("zoo {} cfg {:?}: bfs unique_state_count={} but {} component-wise distinct states are reachable", z.name, cfg, c.unique_state_count(), g.states.len()), json!({"engine": "e4", "zoo": z.name, "cfg": cfg}));
                    }
                }
            });
        }
    }
    // 11. the consistency testers as values (they are the `history` component of register-harness states):
    //     every well-formed history within the bound, both testers, three start objects
    for threads in if th { vec![2u8, 3u8] } else { vec![2u8] } {
        for init in ['i', 'a'] {
            mine(shared, &mut |r| {
                let max_ops = if threads == 2 { if th { 4 } else { 3 } } else { 3 };
                let mut lin_vals = Vec::new();
                let mut sc_vals = Vec::new();
                tester_histories(threads, max_ops, &mut |h| {
                    let (l, s) = build_testers(init, h);
                    lin_vals.push((l, format!("init={init} {}", tester_canon(h, threads, true))));
                    sc_vals.push((s, format!("init={init} {}", tester_canon(h, threads, false))));
                });
                if init == 'i' {
                    // the same histories from another start object must be different values
                    tester_histories(threads, 1, &mut |h| {
                        let (l, s) = build_testers('b', h);
                        lin_vals.push((l, format!("init=b {}", tester_canon(h, threads, true))));
                        sc_vals.push((s, format!("init=b {}", tester_canon(h, threads, false))));
                    });
                }
                check_family(r, "linearizability-tester", &lin_vals, lin_vals.len() < 2500);
                check_family(r, "sequential-consistency-tester", &sc_vals, sc_vals.len() < 2500);
                eq_against_neighbours(r, "linearizability-tester", &mut lin_vals);
                eq_against_neighbours(r, "sequential-consistency-tester", &mut sc_vals);
            });
        }
    }
}

/// `==` against the harness identity for the pairs adjacent in canonical order (every value against a value
/// of the same identity when one exists, and against the nearest different one) - linear instead of quadratic.
fn eq_against_neighbours<T: PartialEq + Debug>(r: &mut Report, fam: &str, vals: &mut Vec<(T, String)>) {
    vals.sort_by(|a, b| a.1.cmp(&b.1));
    for i in 1..vals.len() {
        let same = vals[i - 1].1 == vals[i].1;
        let eq = vals[i - 1].0 == vals[i].0;
        r.transitions += 1;
        if eq != same {
            r.violation(&format!("e4:{fam}:{}", if eq { "eq-merges-distinct" } else { "eq-splits-equal" }), format!("{:?} == {:?} is {eq} but component-wise identity is {same} ({} vs {})", vals[i - 1].0, vals[i].0, vals[i - 1].1, vals[i].1), json!({"engine": "e4", "family": fam, "a": vals[i - 1].1, "b": vals[i].1}));
        }
    }
}

use crate::engines::e5::Ev;
use stateright::semantics::register::*;
use stateright::semantics::*;

const T_OPS: [RegisterOp<char>; 3] = [RegisterOp::Write('a'), RegisterOp::Write('b'), RegisterOp::Read];
const T_RETS: [RegisterRet<char>; 3] = [RegisterRet::WriteOk, RegisterRet::ReadOk('a'), RegisterRet::ReadOk('i')];

/// every well-formed event sequence over `threads` threads with at most `max_ops` invocations
fn tester_histories(threads: u8, max_ops: usize, f: &mut dyn FnMut(&[Ev])) {
    fn go(h: &mut Vec<Ev>, infl: &mut Vec<bool>, nops: usize, threads: u8, max_ops: usize, f: &mut dyn FnMut(&[Ev])) {
        f(h);
        for t in 0..threads {
            if infl[t as usize] {
                for r in 0..T_RETS.len() {
                    h.push(Ev::Ret(t, r));
                    infl[t as usize] = false;
                    go(h, infl, nops, threads, max_ops, f);
                    infl[t as usize] = true;
                    h.pop();
                }
            } else if nops < max_ops {
                for o in 0..T_OPS.len() {
                    h.push(Ev::Inv(t, o));
                    infl[t as usize] = true;
                    go(h, infl, nops + 1, threads, max_ops, f);
                    infl[t as usize] = false;
                    h.pop();
                }
            }
        }
    }
    go(&mut Vec::new(), &mut vec![false; threads as usize], 0, threads, max_ops, f);
}

fn build_testers(init: char, h: &[Ev]) -> (LinearizabilityTester<u8, Register<char>>, SequentialConsistencyTester<u8, Register<char>>) {
    let mut l = LinearizabilityTester::new(Register(init));
    let mut s = SequentialConsistencyTester::new(Register(init));
    for e in h {
        match e {
            Ev::Inv(t, o) => {
                l.on_invoke(*t, T_OPS[*o].clone()).expect("well-formed");
                s.on_invoke(*t, T_OPS[*o].clone()).expect("well-formed");
            }
            Ev::Ret(t, x) => {
                l.on_return(*t, T_RETS[*x].clone()).expect("well-formed");
                s.on_return(*t, T_RETS[*x].clone()).expect("well-formed");
            }
        }
    }
    (l, s)
}

/// The information content of a tester after history `h`, computed from the history alone: per thread
/// the completed (operation, return) pairs in order and the operation in flight; for the linearizability
/// tester additionally, per operation, how many operations of each other thread had completed when it was
/// invoked (its real-time predecessors). Two histories with the same content are the same tester value.
fn tester_canon(h: &[Ev], threads: u8, real_time: bool) -> String {
    let mut done: Vec<Vec<String>> = vec![Vec::new(); threads as usize];
    let mut infl: Vec<Option<String>> = vec![None; threads as usize];
    let mut seen: Vec<bool> = vec![false; threads as usize];
    for e in h {
        match e {
            Ev::Inv(t, o) => {
                seen[*t as usize] = true;
                let rt: Vec<usize> = (0..threads as usize).map(|p| if p == *t as usize { 0 } else { done[p].len() }).collect();
                infl[*t as usize] = Some(if real_time { format!("{:?}@{:?}", T_OPS[*o], rt) } else { format!("{:?}", T_OPS[*o]) });
            }
            Ev::Ret(t, x) => {
                let o = infl[*t as usize].take().expect("well-formed");
                done[*t as usize].push(format!("{o}->{:?}", T_RETS[*x]));
            }
        }
    }
    format!("seen={:?} done={:?} inflight={:?}", seen, done, infl)
}
