//! E5 — all small concurrent histories against the consistency testers (C08, C14) and the
//! sequential specifications (C18a). DESIGN appendix B.

use crate::report::*;
use crate::Args;
use serde_json::{json, Value};
use stateright::semantics::register::*;
use stateright::semantics::vec::*;
use stateright::semantics::write_once_register::*;
use stateright::semantics::*;
use std::fmt::Debug;

#[derive(Clone, Copy, Debug, PartialEq, Eq)]
pub enum Ev {
    Inv(u8, usize),
    Ret(u8, usize),
}

/// One sequential specification under test (`R`) with the harness's own re-implementation of its
/// semantics (`S`, `invoke`) over the same public op/ret enums.
pub struct SpecDef<R: SequentialSpec, S> {
    pub name: &'static str,
    pub init_real: R,
    pub init_mine: S,
    pub ops: Vec<R::Op>,
    pub rets: Vec<R::Ret>,
    pub invoke: fn(&mut S, &R::Op) -> R::Ret,
    /// further start values for the sequential checks (C18a)
    pub starts: Vec<(R, S)>,
}

pub fn register_def() -> SpecDef<Register<char>, char> {
    fn inv(s: &mut char, op: &RegisterOp<char>) -> RegisterRet<char> {
        match op {
            RegisterOp::Write(v) => {
                *s = *v;
                RegisterRet::WriteOk
            }
            RegisterOp::Read => RegisterRet::ReadOk(*s),
        }
    }
    SpecDef {
        name: "register",
        init_real: Register('i'),
        init_mine: 'i',
        ops: vec![RegisterOp::Write('a'), RegisterOp::Write('b'), RegisterOp::Read],
        rets: vec![RegisterRet::WriteOk, RegisterRet::ReadOk('i'), RegisterRet::ReadOk('a'), RegisterRet::ReadOk('b')],
        invoke: inv,
        starts: vec![(Register('i'), 'i'), (Register('a'), 'a')],
    }
}

pub fn woregister_def() -> SpecDef<WORegister<char>, Option<char>> {
    fn inv(s: &mut Option<char>, op: &WORegisterOp<char>) -> WORegisterRet<char> {
        match op {
            WORegisterOp::Write(v) => match s {
                None => {
                    *s = Some(*v);
                    WORegisterRet::WriteOk
                }
                Some(x) if *x == *v => WORegisterRet::WriteOk,
                Some(_) => WORegisterRet::WriteFail,
            },
            WORegisterOp::Read => WORegisterRet::ReadOk(*s),
        }
    }
    SpecDef {
        name: "woregister",
        init_real: WORegister(None),
        init_mine: None,
        ops: vec![WORegisterOp::Write('a'), WORegisterOp::Write('b'), WORegisterOp::Read],
        rets: vec![WORegisterRet::WriteOk, WORegisterRet::WriteFail, WORegisterRet::ReadOk(None), WORegisterRet::ReadOk(Some('a')), WORegisterRet::ReadOk(Some('b'))],
        invoke: inv,
        starts: vec![(WORegister(None), None), (WORegister(Some('a')), Some('a')), (WORegister(Some('b')), Some('b'))],
    }
}

pub fn vec_def() -> SpecDef<Vec<u8>, Vec<u8>> {
    fn inv(s: &mut Vec<u8>, op: &VecOp<u8>) -> VecRet<u8> {
        match op {
            VecOp::Push(v) => {
                s.push(*v);
                VecRet::PushOk
            }
            VecOp::Pop => {
                if s.is_empty() {
                    VecRet::PopOk(None)
                } else {
                    let x = s[s.len() - 1];
                    s.truncate(s.len() - 1);
                    VecRet::PopOk(Some(x))
                }
            }
            VecOp::Len => VecRet::LenOk(s.len()),
        }
    }
    SpecDef {
        name: "vec",
        init_real: vec![],
        init_mine: vec![],
        ops: vec![VecOp::Push(1), VecOp::Push(2), VecOp::Pop, VecOp::Len],
        rets: vec![VecRet::PushOk, VecRet::PopOk(None), VecRet::PopOk(Some(1)), VecRet::PopOk(Some(2)), VecRet::LenOk(0), VecRet::LenOk(1), VecRet::LenOk(2)],
        invoke: inv,
        starts: vec![(vec![], vec![]), (vec![1], vec![1]), (vec![2, 1], vec![2, 1])],
    }
}

// ------------------------------------------------------------------------------------------------
// The definition-level oracle
// ------------------------------------------------------------------------------------------------

#[derive(Clone, Debug)]
pub struct OpRec {
    pub thread: u8,
    pub op: usize,
    pub ret: Option<usize>,
    pub inv_at: usize,
    pub ret_at: Option<usize>,
}

pub fn ops_of(h: &[Ev]) -> Vec<OpRec> {
    let mut v: Vec<OpRec> = Vec::new();
    for (i, e) in h.iter().enumerate() {
        match e {
            Ev::Inv(t, o) => v.push(OpRec { thread: *t, op: *o, ret: None, inv_at: i, ret_at: None }),
            Ev::Ret(t, r) => {
                let rec = v.iter_mut().rev().find(|x| x.thread == *t && x.ret.is_none()).expect("well-formed");
                rec.ret = Some(*r);
                rec.ret_at = Some(i);
            }
        }
    }
    v
}

/// must `a` come before `b`?
fn before(a: &OpRec, b: &OpRec, real_time: bool) -> bool {
    if a.thread == b.thread && a.inv_at < b.inv_at {
        return true;
    }
    if real_time {
        if let Some(r) = a.ret_at {
            if r < b.inv_at {
                return true;
            }
        }
    }
    false
}

pub struct Oracle<'a, R: SequentialSpec, S> {
    pub def: &'a SpecDef<R, S>,
    pub ops: &'a [OpRec],
    pub real_time: bool,
}

impl<'a, R: SequentialSpec, S: Clone> Oracle<'a, R, S>
where
    R::Op: Clone + PartialEq,
    R::Ret: Clone + PartialEq,
{
    fn eligible(&self, placed: u32, i: usize) -> bool {
        if placed & (1 << i) != 0 {
            return false;
        }
        // every op that must precede i is placed (a pending op that is skipped precedes nothing
        // completed: it is the last of its thread and has no return)
        for (j, p) in self.ops.iter().enumerate() {
            if j != i && before(p, &self.ops[i], self.real_time) && placed & (1 << j) == 0 {
                return false;
            }
        }
        true
    }
    fn all_completed_placed(&self, placed: u32) -> bool {
        self.ops.iter().enumerate().all(|(i, o)| o.ret.is_none() || placed & (1 << i) != 0)
    }
    /// Is there a legal total order (smart search)?
    pub fn exists(&self) -> bool {
        self.search(0, &self.def.init_mine)
    }
    fn search(&self, placed: u32, s: &S) -> bool {
        if self.all_completed_placed(placed) {
            return true;
        }
        for i in 0..self.ops.len() {
            if !self.eligible(placed, i) {
                continue;
            }
            let mut s2 = s.clone();
            let r = (self.def.invoke)(&mut s2, &self.def.ops[self.ops[i].op]);
            if let Some(want) = self.ops[i].ret {
                if r != self.def.rets[want] {
                    continue;
                }
            }
            if self.search(placed | (1 << i), &s2) {
                return true;
            }
        }
        false
    }
    /// Literal definition: subsets of pending ops x permutations.
    pub fn exists_bruteforce(&self) -> bool {
        let n = self.ops.len();
        let pending: Vec<usize> = (0..n).filter(|i| self.ops[*i].ret.is_none()).collect();
        let completed: Vec<usize> = (0..n).filter(|i| self.ops[*i].ret.is_some()).collect();
        for sub in 0..(1u32 << pending.len()) {
            let mut chosen = completed.clone();
            for (k, p) in pending.iter().enumerate() {
                if (sub >> k) & 1 == 1 {
                    chosen.push(*p);
                }
            }
            let mut perm = chosen.clone();
            if self.permute(&mut perm, 0) {
                return true;
            }
        }
        false
    }
    fn permute(&self, perm: &mut Vec<usize>, k: usize) -> bool {
        if k == perm.len() {
            return self.legal(perm);
        }
        for i in k..perm.len() {
            perm.swap(k, i);
            if self.permute(perm, k + 1) {
                perm.swap(k, i);
                return true;
            }
            perm.swap(k, i);
        }
        false
    }
    fn legal(&self, order: &[usize]) -> bool {
        for x in 0..order.len() {
            for y in (x + 1)..order.len() {
                // order[y] comes after order[x]; it must not be required before it
                if before(&self.ops[order[y]], &self.ops[order[x]], self.real_time) {
                    return false;
                }
            }
        }
        let mut s = self.def.init_mine.clone();
        for i in order {
            let r = (self.def.invoke)(&mut s, &self.def.ops[self.ops[*i].op]);
            if let Some(want) = self.ops[*i].ret {
                if r != self.def.rets[want] {
                    return false;
                }
            }
        }
        true
    }
    /// Is `sigma` a member of the set of legal total orders?
    pub fn member(&self, sigma: &[(R::Op, R::Ret)]) -> bool {
        self.member_search(0, &self.def.init_mine, sigma, 0)
    }
    fn member_search(&self, placed: u32, s: &S, sigma: &[(R::Op, R::Ret)], k: usize) -> bool {
        if k == sigma.len() {
            return self.all_completed_placed(placed);
        }
        for i in 0..self.ops.len() {
            if !self.eligible(placed, i) {
                continue;
            }
            if self.def.ops[self.ops[i].op] != sigma[k].0 {
                continue;
            }
            let mut s2 = s.clone();
            let r = (self.def.invoke)(&mut s2, &self.def.ops[self.ops[i].op]);
            if r != sigma[k].1 {
                continue;
            }
            if let Some(want) = self.ops[i].ret {
                if r != self.def.rets[want] {
                    continue;
                }
            }
            if self.member_search(placed | (1 << i), &s2, sigma, k + 1) {
                return true;
            }
        }
        false
    }
}

// ------------------------------------------------------------------------------------------------
// Enumeration of histories
// ------------------------------------------------------------------------------------------------

pub struct Bounds {
    pub threads: u8,
    pub max_ops: usize,
    /// ill-formed continuations are tried at nodes with at most this many events
    pub illformed_depth: usize,
    /// clone test at nodes with at most this many events
    pub clone_depth: usize,
}

struct Walker<'a, R: SequentialSpec, S> {
    def: &'a SpecDef<R, S>,
    b: &'a Bounds,
    which: &'a str, // "C08" | "C14"
    shared: &'a SharedReport,
    nodes: u64,
    shard: u64,
    nshards: u64,
    top: u64,
    selfcheck_ops: usize,
}

fn render<R: SequentialSpec, S>(def: &SpecDef<R, S>, h: &[Ev]) -> Vec<String>
where
    R::Op: Debug,
    R::Ret: Debug,
{
    h.iter()
        .map(|e| match e {
            Ev::Inv(t, o) => format!("t{t} invokes {:?}", def.ops[*o]),
            Ev::Ret(t, r) => format!("t{t} returns {:?}", def.rets[*r]),
        })
        .collect()
}

impl<'a, R, S> Walker<'a, R, S>
where
    R: SequentialSpec + Clone + Debug + PartialEq,
    R::Op: Clone + Debug + PartialEq,
    R::Ret: Clone + Debug + PartialEq,
    S: Clone,
{
    fn violation(&self, key: &str, what: String, h: &[Ev]) {
        let mut r = self.shared.lock().unwrap();
        let hist = render(self.def, h);
        r.violation(&format!("e5:{}:{key}:{}", self.which.to_lowercase(), self.def.name), format!("{what}; history {:?}", hist), json!({"engine": "e5", "spec": self.def.name, "history": hist}));
    }

    fn apply_lin(t: &mut LinearizabilityTester<u8, R>, def: &SpecDef<R, S>, e: &Ev) -> bool {
        match e {
            Ev::Inv(th, o) => t.on_invoke(*th, def.ops[*o].clone()).is_ok(),
            Ev::Ret(th, r) => t.on_return(*th, def.rets[*r].clone()).is_ok(),
        }
    }
    fn apply_sc(t: &mut SequentialConsistencyTester<u8, R>, def: &SpecDef<R, S>, e: &Ev) -> bool {
        match e {
            Ev::Inv(th, o) => t.on_invoke(*th, def.ops[*o].clone()).is_ok(),
            Ev::Ret(th, r) => t.on_return(*th, def.rets[*r].clone()).is_ok(),
        }
    }

    /// all events (well- and ill-formed) possible after h
    fn all_events(&self) -> Vec<Ev> {
        let mut v = Vec::new();
        for t in 0..self.b.threads {
            for o in 0..self.def.ops.len() {
                v.push(Ev::Inv(t, o));
            }
            for r in 0..self.def.rets.len() {
                v.push(Ev::Ret(t, r));
            }
        }
        v
    }

    fn check_node(&mut self, h: &[Ev], lin: &LinearizabilityTester<u8, R>, sc: &SequentialConsistencyTester<u8, R>, in_flight: &[bool]) {
        self.nodes += 1;
        let ops = ops_of(h);
        let completed = ops.iter().filter(|o| o.ret.is_some()).count();
        let o_lin = Oracle { def: self.def, ops: &ops, real_time: true };
        let o_sc = Oracle { def: self.def, ops: &ops, real_time: false };
        let want_lin = o_lin.exists();
        let want_sc = o_sc.exists();
        if ops.len() <= self.selfcheck_ops {
            // the two formulations of the oracle must agree (machinery self-check)
            if want_lin != o_lin.exists_bruteforce() || want_sc != o_sc.exists_bruteforce() {
                let mut r = self.shared.lock().unwrap();
                r.violation("machinery:e5-oracle-self-disagreement", format!("smart and literal oracle disagree on {:?}", render(self.def, h)), json!({}));
            }
        }
        let got_lin = lin.is_consistent();
        let got_sc = sc.is_consistent();
        let ser_lin = lin.serialized_history();
        let ser_sc = sc.serialized_history();
        {
            let mut r = self.shared.lock().unwrap();
            r.evaluations += 1;
            r.states += 1;
            r.traces += 1;
            r.transitions += h.len() as u64;
            if ops.len() >= 2 && in_flight.iter().filter(|x| **x).count() + completed >= 2 {
                r.nontrivial += 1;
            }
            if self.nodes % 257 == 0 {
                r.outcome(format!("{}:ops{}:lin{}:sc{}", self.def.name, ops.len(), want_lin, want_sc));
            }
            let def = self.def;
            r.sample(250_007, || json!({"spec": def.name, "history": render(def, h), "linearizable": want_lin, "sequentially_consistent": want_sc}));
        }
        if self.which == "C08" {
            if got_lin != want_lin {
                self.violation(if got_lin { "accepts-nonlinearizable" } else { "rejects-linearizable" }, format!("linearizability tester says consistent={got_lin}, the definition says {want_lin}"), h);
            }
            if ser_lin.is_some() != got_lin {
                self.violation("serialized-vs-consistent", format!("serialized_history().is_some()={} but is_consistent()={got_lin}", ser_lin.is_some()), h);
            }
            if let Some(sigma) = &ser_lin {
                if !o_lin.member(sigma) {
                    self.violation("serialization-not-a-linearization", format!("serialized_history() = {:?} is not a legal total order respecting program order and real time", sigma), h);
                }
            }
            if lin.len() != ops.len() {
                self.violation("len", format!("len()={} but {} operations were recorded", lin.len(), ops.len()), h);
            }
        } else {
            if got_sc != want_sc {
                self.violation(if got_sc { "accepts-inconsistent" } else { "rejects-consistent" }, format!("sequential consistency tester says consistent={got_sc}, the definition says {want_sc}"), h);
            }
            if let Some(sigma) = &ser_sc {
                if !o_sc.member(sigma) {
                    self.violation("serialization-not-legal", format!("serialized_history() = {:?} is not a legal total order respecting program order", sigma), h);
                }
            }
            if ser_sc.is_some() != got_sc {
                self.violation("serialized-vs-consistent", format!("serialized_history().is_some()={} but is_consistent()={got_sc}", ser_sc.is_some()), h);
            }
            if got_lin && !got_sc {
                self.violation("lin-accepted-sc-rejected", "accepted by the linearizability tester but rejected by the sequential consistency tester".into(), h);
            }
            if sc.len() != ops.len() {
                self.violation("len", format!("len()={} but {} operations were recorded", sc.len(), ops.len()), h);
            }
            // value semantics: recording into a clone never alters the original
            if h.len() <= self.b.clone_depth {
                let before_l = format!("{:?}", lin);
                let before_s = format!("{:?}", sc);
                let (l0, s0) = (lin.clone(), sc.clone());
                for e in self.all_events() {
                    let mut lc = lin.clone();
                    let mut scc = sc.clone();
                    let _ = Self::apply_lin(&mut lc, self.def, &e);
                    let _ = Self::apply_sc(&mut scc, self.def, &e);
                    // the clone is queried too (anything it computes or caches is its own)
                    let _ = (lc.is_consistent(), lc.serialized_history(), scc.is_consistent(), scc.serialized_history());
                    let mut r = self.shared.lock().unwrap();
                    r.transitions += 2;
                    drop(r);
                    if *lin != l0 || format!("{:?}", lin) != before_l || lin.is_consistent() != got_lin || lin.serialized_history() != ser_lin {
                        self.violation("clone-aliasing-lin", format!("recording {:?} into a clone of the linearizability tester changed the original", e), h);
                    }
                    if *sc != s0 || format!("{:?}", sc) != before_s || sc.is_consistent() != got_sc || sc.serialized_history() != ser_sc {
                        self.violation("clone-aliasing-sc", format!("recording {:?} into a clone of the sequential consistency tester changed the original", e), h);
                    }
                }
            }
        }
        // ill-formed continuations
        if h.len() <= self.b.illformed_depth {
            for t in 0..self.b.threads {
                let bad: Vec<Ev> = if in_flight[t as usize] {
                    (0..self.def.ops.len()).map(|o| Ev::Inv(t, o)).collect()
                } else {
                    (0..self.def.rets.len()).map(|r| Ev::Ret(t, r)).collect()
                };
                for e in bad {
                    self.illformed(h, lin, sc, e);
                }
                // the same second invocation arriving through the on_invret helper
                if in_flight[t as usize] {
                    for o in 0..self.def.ops.len() {
                        let (mut l, mut s) = (lin.clone(), sc.clone());
                        let ok_l = l.on_invret(t, self.def.ops[o].clone(), self.def.rets[0].clone()).is_ok();
                        let ok_s = s.on_invret(t, self.def.ops[o].clone(), self.def.rets[0].clone()).is_ok();
                        {
                            let mut r = self.shared.lock().unwrap();
                            r.evaluations += 1;
                            r.nontrivial += 1;
                            r.traces += 1;
                        }
                        let c08 = self.which == "C08";
                        let mut hh = h.to_vec();
                        hh.push(Ev::Inv(t, o));
                        if (c08 && (ok_l || l.is_consistent() || l.serialized_history().is_some())) || (!c08 && (ok_s || s.is_consistent() || s.serialized_history().is_some())) {
                            self.violation("illformed-invret-accepted", format!("on_invret for thread {t}, which has an operation in flight, was accepted or left the tester consistent"), &hh);
                        }
                        // and it stays rejected
                        for e1 in self.all_events() {
                            let (mut l1, mut s1) = (l.clone(), s.clone());
                            let a = Self::apply_lin(&mut l1, self.def, &e1);
                            let b = Self::apply_sc(&mut s1, self.def, &e1);
                            if (c08 && (a || l1.is_consistent())) || (!c08 && (b || s1.is_consistent())) {
                                let mut h2 = hh.clone();
                                h2.push(e1);
                                self.violation("illformed-recovers", format!("after an ill-formed on_invret, {:?} was accepted or the tester became consistent again", e1), &h2);
                            }
                        }
                    }
                }
            }
        }
    }

    fn illformed(&mut self, h: &[Ev], lin: &LinearizabilityTester<u8, R>, sc: &SequentialConsistencyTester<u8, R>, bad: Ev) {
        let mut l = lin.clone();
        let mut s = sc.clone();
        let ok_l = Self::apply_lin(&mut l, self.def, &bad);
        let ok_s = Self::apply_sc(&mut s, self.def, &bad);
        let mut hh = h.to_vec();
        hh.push(bad);
        {
            let mut r = self.shared.lock().unwrap();
            r.evaluations += 1;
            r.nontrivial += 1;
            r.traces += 1;
        }
        let c08 = self.which == "C08";
        if c08 && ok_l {
            self.violation("illformed-accepted", format!("ill-formed event {:?} was accepted (Ok) by the linearizability tester", bad), &hh);
        }
        if !c08 && ok_s {
            self.violation("illformed-accepted", format!("ill-formed event {:?} was accepted (Ok) by the sequential consistency tester", bad), &hh);
        }
        if c08 && (l.is_consistent() || l.serialized_history().is_some()) {
            self.violation("illformed-still-consistent", "after an ill-formed event the linearizability tester still reports consistent".into(), &hh);
        }
        if !c08 && (s.is_consistent() || s.serialized_history().is_some()) {
            self.violation("illformed-still-consistent", "after an ill-formed event the sequential consistency tester still reports consistent".into(), &hh);
        }
        // every continuation of length <= 2 is rejected and the tester stays inconsistent
        let evs = self.all_events();
        for e1 in &evs {
            let mut l1 = l.clone();
            let mut s1 = s.clone();
            let a = Self::apply_lin(&mut l1, self.def, e1);
            let b = Self::apply_sc(&mut s1, self.def, e1);
            if (c08 && (a || l1.is_consistent())) || (!c08 && (b || s1.is_consistent())) {
                let mut h2 = hh.clone();
                h2.push(*e1);
                self.violation("illformed-recovers", format!("after an ill-formed event, {:?} was accepted or the tester became consistent again", e1), &h2);
            }
            if h.len() <= 2 {
                for e2 in &evs {
                    let mut l2 = l1.clone();
                    let mut s2 = s1.clone();
                    let a = Self::apply_lin(&mut l2, self.def, e2);
                    let b = Self::apply_sc(&mut s2, self.def, e2);
                    if (c08 && (a || l2.is_consistent())) || (!c08 && (b || s2.is_consistent())) {
                        let mut h2 = hh.clone();
                        h2.push(*e1);
                        h2.push(*e2);
                        self.violation("illformed-recovers", format!("after an ill-formed event, {:?} was accepted or the tester became consistent again", e2), &h2);
                    }
                }
            }
        }
    }

    fn go(&mut self, h: &mut Vec<Ev>, lin: &LinearizabilityTester<u8, R>, sc: &SequentialConsistencyTester<u8, R>, in_flight: &mut Vec<bool>, nops: usize) {
        // shard on the subtrees below depth 3
        if h.len() == 3 {
            self.top += 1;
            if self.top % self.nshards != self.shard {
                return;
            }
        }
        if h.len() >= 3 || self.shard == 0 {
            self.check_node(h, lin, sc, in_flight);
        }
        for t in 0..self.b.threads {
            // symmetry breaking would hide thread-id dependent bugs; none is applied
            let nexts: Vec<Ev> = if in_flight[t as usize] {
                (0..self.def.rets.len()).map(|r| Ev::Ret(t, r)).collect()
            } else if nops < self.b.max_ops {
                (0..self.def.ops.len()).map(|o| Ev::Inv(t, o)).collect()
            } else {
                vec![]
            };
            for e in nexts {
                let mut l = lin.clone();
                let mut s = sc.clone();
                let ok1 = Self::apply_lin(&mut l, self.def, &e);
                let ok2 = Self::apply_sc(&mut s, self.def, &e);
                // on_invret(t, op, ret) is on_invoke followed by on_return
                if let (Ev::Inv(th, o), true) = (&e, h.len() <= self.b.clone_depth + 1) {
                    for r in 0..self.def.rets.len() {
                        let (mut la, mut sa) = (lin.clone(), sc.clone());
                        let a1 = la.on_invret(*th, self.def.ops[*o].clone(), self.def.rets[r].clone()).is_ok();
                        let a2 = sa.on_invret(*th, self.def.ops[*o].clone(), self.def.rets[r].clone()).is_ok();
                        let (mut lb, mut sb) = (l.clone(), s.clone());
                        let b1 = ok1 && lb.on_return(*th, self.def.rets[r].clone()).is_ok();
                        let b2 = ok2 && sb.on_return(*th, self.def.rets[r].clone()).is_ok();
                        {
                            let mut rep = self.shared.lock().unwrap();
                            rep.transitions += 2;
                        }
                        if a1 != b1 || a2 != b2 || la != lb || sa != sb || la.is_consistent() != lb.is_consistent() || sa.is_consistent() != sb.is_consistent() {
                            let mut hh = h.clone();
                            hh.push(e);
                            hh.push(Ev::Ret(*th, r));
                            self.violation("invret-differs", "on_invret() does not equal on_invoke() followed by on_return()".into(), &hh);
                        }
                    }
                }
                h.push(e);
                if !ok1 || !ok2 {
                    self.violation("wellformed-rejected", format!("well-formed event {:?} was rejected (lin ok={ok1}, sc ok={ok2})", e), h);
                    h.pop();
                    continue;
                }
                let was = in_flight[t as usize];
                in_flight[t as usize] = matches!(e, Ev::Inv(..));
                let n2 = nops + if matches!(e, Ev::Inv(..)) { 1 } else { 0 };
                self.go(h, &l, &s, in_flight, n2);
                in_flight[t as usize] = was;
                h.pop();
            }
        }
    }
}

fn run_spec<R, S>(def: SpecDef<R, S>, b: &Bounds, which: &str, a: &Args, shared: &SharedReport)
where
    R: SequentialSpec + Clone + Debug + PartialEq,
    R::Op: Clone + Debug + PartialEq,
    R::Ret: Clone + Debug + PartialEq,
    S: Clone,
{
    let mut w = Walker { def: &def, b, which, shared, nodes: 0, shard: a.shard, nshards: a.nshards, top: 0, selfcheck_ops: 3 };
    let lin = LinearizabilityTester::new(def.init_real.clone());
    let sc = SequentialConsistencyTester::new(def.init_real.clone());
    let mut inf = vec![false; b.threads as usize];
    w.go(&mut Vec::new(), &lin, &sc, &mut inf, 0);
}

pub fn run_testers(a: &Args, shared: &SharedReport, which: &str) {
    let th = a.tier == "thorough";
    {
        let mut r = shared.lock().unwrap();
        r.rule = "every event sequence (invocations and returns, return values from the whole return alphabet, operations left in flight) within the bound, for three sequential specifications; each prefix is a case; ill-formed events and their continuations from every short prefix; non-trivial = at least two operations of which two are completed or in flight".into();
        r.bounds = if th {
            json!({"threads_ops": "2 threads <=4 operations (all three specs) + 3 threads <=3 operations (all three specs) + 3 threads <=4 operations (register, write-once register) + 2 threads <=5 operations (register)", "illformed": "from every prefix of <=4 events, continuations of length <=2", "clone_test": "prefixes of <=4 events x every next event"})
        } else {
            json!({"threads_ops": "2 threads <=4 operations (register, write-once register; vec <=3) + 3 threads <=3 operations (all three specs) + 3 threads <=4 operations (register)", "illformed": "from every prefix of <=3 events, continuations of length <=2", "clone_test": "prefixes of <=3 events x every next event"})
        };
    }
    if let Ok(c) = std::env::var("VERIF_E5_CASE") {
        // experiment switch: "threads,ops,spec"
        let p: Vec<&str> = c.split(',').collect();
        let b = Bounds { threads: p[0].parse().unwrap(), max_ops: p[1].parse().unwrap(), illformed_depth: 0, clone_depth: 0 };
        match p[2] {
            "register" => run_spec(register_def(), &b, which, a, shared),
            "woregister" => run_spec(woregister_def(), &b, which, a, shared),
            _ => run_spec(vec_def(), &b, which, a, shared),
        }
        return;
    }
    if th {
        let b = Bounds { threads: 2, max_ops: 4, illformed_depth: 4, clone_depth: 4 };
        run_spec(register_def(), &b, which, a, shared);
        run_spec(woregister_def(), &b, which, a, shared);
        run_spec(vec_def(), &b, which, a, shared);
        let b3 = Bounds { threads: 3, max_ops: 3, illformed_depth: 2, clone_depth: 2 };
        run_spec(woregister_def(), &b3, which, a, shared);
        run_spec(vec_def(), &b3, which, a, shared);
        let b4 = Bounds { threads: 3, max_ops: 4, illformed_depth: 0, clone_depth: 0 };
        run_spec(register_def(), &b4, which, a, shared);
        run_spec(woregister_def(), &b4, which, a, shared);
        let b5 = Bounds { threads: 2, max_ops: 5, illformed_depth: 0, clone_depth: 0 };
        run_spec(register_def(), &b5, which, a, shared);
    } else {
        let b = Bounds { threads: 2, max_ops: 4, illformed_depth: 3, clone_depth: 3 };
        run_spec(register_def(), &b, which, a, shared);
        run_spec(woregister_def(), &b, which, a, shared);
        let bv = Bounds { threads: 2, max_ops: 3, illformed_depth: 3, clone_depth: 3 };
        run_spec(vec_def(), &bv, which, a, shared);
        let b3 = Bounds { threads: 3, max_ops: 3, illformed_depth: 1, clone_depth: 1 };
        run_spec(register_def(), &b3, which, a, shared);
        run_spec(woregister_def(), &b3, which, a, shared);
        run_spec(vec_def(), &b3, which, a, shared);
        // three threads with four operations (one pending next to three completed ones on other threads is the
        // smallest shape in which a pending operation has to be placed before an applicable completed one)
        let b4 = Bounds { threads: 3, max_ops: 4, illformed_depth: 0, clone_depth: 0 };
        run_spec(register_def(), &b4, which, a, shared);
    }
}

// ------------------------------------------------------------------------------------------------
// C18a: the sequential specifications
// ------------------------------------------------------------------------------------------------

fn seq_spec<R, S>(def: SpecDef<R, S>, max_len: usize, shared: &SharedReport)
where
    R: SequentialSpec + Clone + Debug + PartialEq,
    R::Op: Clone + Debug + PartialEq,
    R::Ret: Clone + Debug + PartialEq,
    S: Clone,
{
    // all op sequences of length <= max_len from every start value
    fn walk<R, S>(def: &SpecDef<R, S>, real: &R, mine: &S, depth: usize, max_len: usize, trace: &mut Vec<String>, shared: &SharedReport)
    where
        R: SequentialSpec + Clone + Debug + PartialEq,
        R::Op: Clone + Debug + PartialEq,
        R::Ret: Clone + Debug + PartialEq,
        S: Clone,
    {
        if depth == max_len {
            return;
        }
        for op in &def.ops {
            let mut m2 = mine.clone();
            let want = (def.invoke)(&mut m2, op);
            let mut r_inv = real.clone();
            let got = r_inv.invoke(op);
            let mut rep = shared.lock().unwrap();
            rep.evaluations += 1;
            rep.transitions += 1;
            rep.traces += 1;
            rep.states += 1;
            rep.nontrivial += 1;
            if depth == 2 {
                rep.outcome(format!("{}:{:?}:{:?}", def.name, op, want));
            }
            if got != want {
                rep.violation(&format!("e5:c18-invoke:{}", def.name), format!("{:?}: invoke({:?}) after {:?} returns {:?}, the specification says {:?}", def.name, op, trace, got, want), json!({"engine": "e5seq", "spec": def.name, "ops": trace.clone()}));
            }
            for ret in &def.rets {
                let mut r_step = real.clone();
                let ok = r_step.is_valid_step(op, ret);
                let expect = got == *ret;
                rep.evaluations += 1;
                rep.transitions += 1;
                if ok != expect {
                    rep.violation(&format!("e5:c18-is-valid-step:{}", def.name), format!("after {:?}: is_valid_step({:?}, {:?}) = {ok} but invoke returns {:?}", trace, op, ret, got), json!({"engine": "e5seq", "spec": def.name, "ops": trace.clone()}));
                }
                if ok && r_step != r_inv {
                    rep.violation(&format!("e5:c18-state-after-valid-step:{}", def.name), format!("after {:?}: accepted step ({:?}, {:?}) leaves the object as {:?}, invoking leaves it as {:?}", trace, op, ret, r_step, r_inv), json!({"engine": "e5seq", "spec": def.name, "ops": trace.clone()}));
                }
            }
            drop(rep);
            trace.push(format!("{:?}", op));
            walk(def, &r_inv, &m2, depth + 1, max_len, trace, shared);
            trace.pop();
        }
    }
    for (real, mine) in &def.starts {
        walk(&def, real, mine, 0, max_len, &mut vec![format!("start={:?}", real)], shared);
    }
    // is_valid_history accepts exactly the sequences obtained by invoking
    fn hist<R, S>(def: &SpecDef<R, S>, start: &(R, S), seq: &mut Vec<(usize, usize)>, max_len: usize, shared: &SharedReport)
    where
        R: SequentialSpec + Clone + Debug + PartialEq,
        R::Op: Clone + Debug + PartialEq,
        R::Ret: Clone + Debug + PartialEq,
        S: Clone,
    {
        let mut mine = start.1.clone();
        let expect = seq.iter().all(|(o, r)| (def.invoke)(&mut mine, &def.ops[*o]) == def.rets[*r]);
        let mut real = start.0.clone();
        let got = real.is_valid_history(seq.iter().map(|(o, r)| (def.ops[*o].clone(), def.rets[*r].clone())).collect::<Vec<_>>());
        {
            let mut rep = shared.lock().unwrap();
            rep.evaluations += 1;
            rep.traces += 1;
            rep.transitions += seq.len() as u64;
            if got != expect {
                let s: Vec<String> = seq.iter().map(|(o, r)| format!("({:?},{:?})", def.ops[*o], def.rets[*r])).collect();
                rep.violation(&format!("e5:c18-is-valid-history:{}", def.name), format!("start {:?}: is_valid_history({:?}) = {got}, invoking in sequence gives {expect}", start.0, s), json!({"engine": "e5seq", "spec": def.name, "history": s}));
            }
        }
        if seq.len() == max_len {
            return;
        }
        for o in 0..def.ops.len() {
            for r in 0..def.rets.len() {
                seq.push((o, r));
                hist(def, start, seq, max_len, shared);
                seq.pop();
            }
        }
    }
    for st in &def.starts {
        hist(&def, st, &mut Vec::new(), max_len.min(3), shared);
    }
}

pub fn run_c18_specs(a: &Args, shared: &SharedReport) {
    let th = a.tier == "thorough";
    let n = if th { 5 } else { 4 };
    if a.shard % 3 == 0 && a.shard < 3 {
        seq_spec(register_def(), n, shared);
    }
    if (a.shard % 3 == 1 && a.shard < 3) || a.nshards < 3 {
        seq_spec(woregister_def(), n, shared);
    }
    if (a.shard % 3 == 2 && a.shard < 3) || a.nshards < 3 {
        seq_spec(vec_def(), n, shared);
    }
}

pub fn replay(v: &Value) -> Vec<(String, String)> {
    println!("history: {}", v["history"]);
    println!("re-run the check to re-evaluate; the history above is the complete failing input for spec {}", v["spec"]);
    vec![]
}
