//! E6 — the UDP actor runtime (`actor::spawn`) over a virtual socket and clock (C17), plus the
//! Id <-> IPv4 socket address sweep.

use crate::report::*;
use crate::Args;
use serde_json::{json, Value};
use stateright::actor::*;
use stateright::verif::rt::NetEnv;
use std::borrow::Cow;
use std::collections::{BTreeMap, VecDeque};
use std::io;
use std::net::{Ipv4Addr, Ipv6Addr, SocketAddr, SocketAddrV4, SocketAddrV6};
use std::sync::{Arc, Condvar, Mutex, OnceLock};
use std::time::Duration;

#[derive(Clone, Debug, PartialEq)]
pub enum Answer {
    Datagram(SocketAddr, Vec<u8>),
    /// the same, but the datagram only arrives after the actor has been waiting for a while: half of the armed
    /// read time-out (or one second when no time-out is armed)
    LateDatagram(SocketAddr, Vec<u8>),
    Timeout,
    EarlyWouldBlock,
    Interrupted,
}

#[derive(Clone, Debug, PartialEq)]
pub enum Kind {
    Start,
    Msg { src: u64, msg: u8 },
    Timeout(u8),
}

#[derive(Clone, Debug, PartialEq)]
pub enum Event {
    Call { actor: usize, kind: Kind, gen_seen: u32, clock: u128 },
    SendTo { actor: usize, dst: SocketAddrV4, bytes: Vec<u8> },
    Answered { actor: usize, answer: Answer, clock_after: u128 },
    SetReadTimeout { actor: usize, dur: Option<Duration> },
}

struct Sock {
    bound: bool,
    addr: SocketAddrV4,
    read_timeout: Option<Duration>,
    waiting: bool,
    wait_since: u128,
    /// this actor's virtual clock: advanced by its own clock readings (1 ns each) and by its own waits, so that
    /// what one actor thread observes never depends on how the OS interleaves it with the other actor's thread
    clock: u128,
    answer: Option<Answer>,
    inbox: VecDeque<(SocketAddrV4, Vec<u8>)>,
}

struct EnvInner {
    active: bool,
    clock: u128,
    socks: Vec<Sock>,
    stop: bool,
    events: Vec<Event>,
}

pub struct Env {
    m: Mutex<EnvInner>,
    cv: Condvar,
}

thread_local!(static ACTOR: std::cell::Cell<Option<usize>> = const { std::cell::Cell::new(None) });

static ENV: OnceLock<Arc<Env>> = OnceLock::new();
fn env() -> Arc<Env> {
    ENV.get_or_init(|| {
        let e = Arc::new(Env { m: Mutex::new(EnvInner { active: false, clock: 0, socks: vec![], stop: false, events: vec![] }), cv: Condvar::new() });
        stateright::verif::rt::install(e.clone());
        e
    })
    .clone()
}

impl NetEnv for Env {
    fn bind(&self, addr: SocketAddrV4) -> io::Result<u64> {
        // the socket handle is the actor's index (sockets are pre-registered per run), so that the
        // order in which the actor threads happen to bind does not matter
        let mut g = self.m.lock().unwrap();
        let i = match g.socks.iter().position(|s| s.addr == addr) {
            Some(i) => i,
            None => return Err(io::Error::new(io::ErrorKind::AddrNotAvailable, "unknown address")),
        };
        if g.socks[i].bound {
            return Err(io::Error::new(io::ErrorKind::AddrInUse, "in use"));
        }
        g.socks[i].bound = true;
        // spawn() binds on the actor's own thread: from now on this thread reads actor i's clock
        ACTOR.with(|a| a.set(Some(i)));
        self.cv.notify_all();
        Ok(i as u64)
    }
    fn set_read_timeout(&self, sock: u64, dur: Option<Duration>) -> io::Result<()> {
        let mut g = self.m.lock().unwrap();
        g.events.push(Event::SetReadTimeout { actor: sock as usize, dur });
        if dur == Some(Duration::ZERO) {
            // as std: a zero duration is an error
            return Err(io::Error::new(io::ErrorKind::InvalidInput, "cannot set a 0 duration timeout"));
        }
        g.socks[sock as usize].read_timeout = dur;
        Ok(())
    }
    fn recv_from(&self, sock: u64, buf: &mut [u8]) -> io::Result<(usize, SocketAddr)> {
        let s = sock as usize;
        let mut g = self.m.lock().unwrap();
        g.socks[s].waiting = true;
        g.socks[s].wait_since = g.socks[s].clock;
        self.cv.notify_all();
        loop {
            if g.stop {
                drop(g);
                panic!("verif: horizon reached, unwinding the actor thread");
            }
            if let Some(a) = g.socks[s].answer.take() {
                g.socks[s].waiting = false;
                let year = Duration::from_secs(3600 * 24 * 365);
                let res = match &a {
                    Answer::Datagram(src, bytes) | Answer::LateDatagram(src, bytes) => {
                        if matches!(a, Answer::LateDatagram(..)) {
                            let waited = match g.socks[s].read_timeout {
                                // half of the armed wait: well away from the deadline itself (a clock reading that
                                // equals a deadline to the nanosecond is an artefact this environment does not construct)
                                Some(d) if d < year => d.as_nanos() / 2,
                                _ => 1_000_000_000,
                            };
                            g.socks[s].clock = g.socks[s].wait_since + waited;
                        }
                        // as UDP: a datagram longer than the buffer is truncated
                        let k = bytes.len().min(buf.len());
                        buf[..k].copy_from_slice(&bytes[..k]);
                        Ok((k, *src))
                    }
                    Answer::Timeout => {
                        let t = g.socks[s].read_timeout.map(|d| d.as_nanos()).unwrap_or(0);
                        let until = g.socks[s].wait_since + t;
                        if until > g.socks[s].clock {
                            g.socks[s].clock = until;
                        }
                        Err(io::Error::new(io::ErrorKind::WouldBlock, "timed out"))
                    }
                    Answer::EarlyWouldBlock => Err(io::Error::new(io::ErrorKind::WouldBlock, "spurious")),
                    Answer::Interrupted => Err(io::Error::new(io::ErrorKind::Interrupted, "interrupted")),
                };
                let c = g.socks[s].clock;
                g.events.push(Event::Answered { actor: s, answer: a, clock_after: c });
                return res;
            }
            g = self.cv.wait(g).unwrap();
        }
    }
    fn send_to(&self, sock: u64, buf: &[u8], dst: SocketAddrV4) -> io::Result<usize> {
        let mut g = self.m.lock().unwrap();
        let from = g.socks[sock as usize].addr;
        g.events.push(Event::SendTo { actor: sock as usize, dst, bytes: buf.to_vec() });
        if dst == addr_of(3) {
            return Err(io::Error::new(io::ErrorKind::Other, "network unreachable"));
        }
        if let Some(d) = g.socks.iter_mut().find(|s| s.addr == dst) {
            d.inbox.push_back((from, buf.to_vec()));
        }
        Ok(buf.len())
    }
    fn now_ns(&self) -> u128 {
        let mut g = self.m.lock().unwrap();
        match ACTOR.with(|a| a.get()) {
            Some(i) if i < g.socks.len() => {
                g.socks[i].clock += 1;
                g.socks[i].clock
            }
            _ => {
                g.clock += 1;
                g.clock
            }
        }
    }
}

// ---- the probe actor -------------------------------------------------------------------------------

#[derive(Clone, Debug, PartialEq)]
pub enum UCmd {
    Send(usize, u8),
    /// timer tag, duration in ms, with a 1 ns wide range (exercises gen_range) or start == end
    Set(u8, u64, bool),
    Cancel(u8),
}

#[derive(Clone, Copy, Debug, PartialEq)]
pub enum Script {
    A,
    B,
    C,
    /// two timers armed with the same fixed duration whose handlers cancel / re-arm each other
    D,
    Ping,
    Pong,
}

pub fn addr_of(i: usize) -> SocketAddrV4 {
    match i {
        0 => SocketAddrV4::new(Ipv4Addr::new(10, 0, 0, 1), 1001),
        1 => SocketAddrV4::new(Ipv4Addr::new(10, 0, 0, 2), 1002),
        _ => SocketAddrV4::new(Ipv4Addr::new(10, 9, 9, 9), 9),
    }
}

fn cmds(script: Script, kind: &Kind) -> Vec<UCmd> {
    use UCmd::*;
    match (script, kind) {
        (Script::A, Kind::Start) => vec![Set(0, 5, true), Send(1, 1)],
        (Script::A, Kind::Msg { msg: 1, .. }) => vec![Send(1, 2)],
        // actor 3's address is unreachable (send_to fails): the remaining commands must still be carried out
        (Script::A, Kind::Msg { msg: 2, .. }) => vec![Cancel(0), Send(1, 3), Send(2, 4), Send(3, 5), Send(1, 6), Set(1, 3, false)],
        (Script::A, Kind::Msg { msg: 3, .. }) => vec![Set(0, 7, false)],
        (Script::A, Kind::Timeout(0)) => vec![Send(1, 9), Set(1, 0, false)],
        (Script::A, Kind::Timeout(1)) => vec![],
        (Script::B, Kind::Start) => vec![Set(0, 3, false), Set(1, 9, true), Cancel(1), Cancel(2)],
        (Script::B, Kind::Msg { msg: 1, .. }) => vec![Set(1, 2, true)],
        (Script::B, Kind::Msg { msg: 2, .. }) => vec![Cancel(0), Cancel(1)],
        (Script::B, Kind::Msg { msg: 3, .. }) => vec![Set(0, 1, false), Set(0, 20, true)],
        (Script::B, Kind::Timeout(t)) => vec![Send(1, 10 + *t)],
        (Script::C, Kind::Start) => vec![],
        (Script::C, Kind::Msg { msg: 1, .. }) => vec![Send(1, 1), Send(1, UNSERIALIZABLE), Send(1, 1), Set(1, 2, false)],
        (Script::C, Kind::Msg { msg: 2, .. }) => vec![Set(0, 4, true), Cancel(0), Set(0, 6, true)],
        (Script::C, Kind::Msg { msg: 3, .. }) => vec![Cancel(0)],
        (Script::C, Kind::Timeout(_)) => vec![Send(2, 7)],
        (Script::D, Kind::Start) => vec![Set(0, 5, false), Set(1, 5, false)],
        (Script::D, Kind::Timeout(0)) => vec![Cancel(1), Send(1, 10)],
        (Script::D, Kind::Timeout(1)) => vec![Set(0, 5, false), Send(1, 11)],
        (Script::D, Kind::Msg { msg: 1, .. }) => vec![Set(1, 5, false), Set(0, 5, false)],
        (Script::D, Kind::Msg { msg: 2, .. }) => vec![Set(0, 5, false), Set(1, 5, false), Set(2, 5, false)],
        (Script::D, Kind::Timeout(2)) => vec![Cancel(0), Cancel(1)],
        (Script::D, Kind::Msg { msg: 3, .. }) => vec![Cancel(0)],
        (Script::Ping, Kind::Start) => vec![Send(1, 1), Set(0, 5, true)],
        (Script::Ping, Kind::Msg { msg, .. }) if *msg < 4 => vec![Send(1, *msg + 1)],
        (Script::Ping, Kind::Timeout(0)) => vec![Send(1, 1)],
        (Script::Pong, Kind::Msg { msg, .. }) if *msg < 4 => vec![Send(0, *msg + 1), Set(1, 2, false)],
        (Script::Pong, Kind::Timeout(1)) => vec![Cancel(1)],
        _ => vec![],
    }
}

#[derive(Clone)]
pub struct Probe {
    pub idx: usize,
    pub script: Script,
}

impl Probe {
    fn act(&self, kind: Kind, gen_seen: u32, o: &mut Out<Self>) {
        let e = env();
        {
            let mut g = e.m.lock().unwrap();
            let c = g.socks[self.idx].clock;
            g.events.push(Event::Call { actor: self.idx, kind: kind.clone(), gen_seen, clock: c });
        }
        for c in cmds(self.script, &kind) {
            match c {
                UCmd::Send(d, m) => o.send(Id::from(addr_of(d)), m),
                UCmd::Set(t, ms, jitter) => {
                    let d = Duration::from_millis(ms);
                    o.set_timer(t, if jitter { d..d + Duration::from_nanos(1) } else { d..d })
                }
                UCmd::Cancel(t) => o.cancel_timer(t),
            }
        }
    }
}

impl Actor for Probe {
    type Msg = u8;
    type State = u32;
    type Timer = u8;
    type Random = ();
    fn on_start(&self, _id: Id, o: &mut Out<Self>) -> u32 {
        self.act(Kind::Start, 0, o);
        1
    }
    fn on_msg(&self, _id: Id, state: &mut Cow<u32>, src: Id, msg: u8, o: &mut Out<Self>) {
        let g = **state;
        *state.to_mut() = g + 1;
        self.act(Kind::Msg { src: usize::from(src) as u64, msg }, g, o);
    }
    fn on_timeout(&self, _id: Id, state: &mut Cow<u32>, timer: &u8, o: &mut Out<Self>) {
        let g = **state;
        *state.to_mut() = g + 1;
        self.act(Kind::Timeout(*timer), g, o);
    }
}

/// a message that cannot be serialized: the runtime must skip it and go on with the remaining commands
const UNSERIALIZABLE: u8 = 77;
fn ser(m: &u8) -> Result<Vec<u8>, String> {
    if *m == UNSERIALIZABLE {
        return Err("unserializable".into());
    }
    Ok(vec![*m, 0xA5])
}
fn de(b: &[u8]) -> Result<u8, String> {
    if b.len() == 2 && b[1] == 0xA5 && b[0] < 100 {
        Ok(b[0])
    } else if b.len() == MAX_UDP && b[0] < 100 && b[1..].iter().all(|x| *x == 0x5A) {
        // the padded encoding: the largest payload an IPv4 UDP datagram can carry
        Ok(b[0])
    } else {
        Err("undecodable".into())
    }
}
/// largest UDP payload over IPv4 (65535 - 20 - 8)
const MAX_UDP: usize = 65_507;
fn ser_padded(m: u8) -> Vec<u8> {
    let mut v = vec![0x5A; MAX_UDP];
    v[0] = m;
    v
}
fn addr_num(a: SocketAddrV4) -> u64 {
    u64::from(u32::from(*a.ip())) << 16 | a.port() as u64
}

// ---- one execution ---------------------------------------------------------------------------------

#[derive(Clone, Debug)]
pub struct StepRec {
    pub n: usize,
    pub chosen: usize,
    pub desc: String,
}

pub struct RunLog {
    pub events: Vec<Event>,
    pub steps: Vec<StepRec>,
    pub died: Option<String>,
    /// replaying the prefix met a different set of possible answers than when the prefix was recorded: the
    /// subject did not behave deterministically under the same environment answers
    pub diverged: Option<String>,
}

fn options(g: &EnvInner, single: bool) -> Vec<(usize, Answer, String)> {
    let mut v = Vec::new();
    let year = Duration::from_secs(3600 * 24 * 365);
    for (a, s) in g.socks.iter().enumerate() {
        if !s.waiting {
            continue;
        }
        let armed = s.read_timeout.map(|d| d < year).unwrap_or(false);
        let mut mine: Vec<(usize, Answer, String)> = Vec::new();
        if armed {
            mine.push((a, Answer::Timeout, format!("a{a}: read times out")));
        }
        if single {
            for m in [1u8, 2, 3] {
                mine.push((a, Answer::Datagram(SocketAddr::V4(addr_of(1)), ser(&m).unwrap()), format!("a{a}: datagram {m} from the peer")));
            }
            mine.push((a, Answer::Datagram(SocketAddr::V4(addr_of(2)), ser(&1).unwrap()), format!("a{a}: datagram 1 from an unknown address")));
            mine.push((a, Answer::LateDatagram(SocketAddr::V4(addr_of(1)), ser(&1).unwrap()), format!("a{a}: datagram 1 from the peer, arriving after a long wait")));
            mine.push((a, Answer::Datagram(SocketAddr::V4(addr_of(1)), ser_padded(2)), format!("a{a}: datagram 2 from the peer in a maximum-size ({MAX_UDP} bytes) encoding")));
        } else if let Some((from, bytes)) = s.inbox.front() {
            mine.push((a, Answer::Datagram(SocketAddr::V4(*from), bytes.clone()), format!("a{a}: next datagram in flight from {from}")));
            mine.push((a, Answer::LateDatagram(SocketAddr::V4(*from), bytes.clone()), format!("a{a}: next datagram in flight from {from}, arriving after a long wait")));
        }
        mine.push((a, Answer::Datagram(SocketAddr::V4(addr_of(1)), vec![7, 7, 7]), format!("a{a}: undecodable bytes")));
        mine.push((a, Answer::Datagram(SocketAddr::V6(SocketAddrV6::new(Ipv6Addr::LOCALHOST, 5, 0, 0)), ser(&1).unwrap()), format!("a{a}: valid bytes from a non-IPv4 source")));
        mine.push((a, Answer::EarlyWouldBlock, format!("a{a}: spurious WouldBlock")));
        mine.push((a, Answer::Interrupted, format!("a{a}: Interrupted")));
        v.extend(mine);
    }
    v
}

pub fn run_system(scripts: &[Script], schedule: &[usize], horizon: usize) -> RunLog {
    let e = env();
    {
        let mut g = e.m.lock().unwrap();
        g.active = true;
        g.clock = 1_000_000;
        g.socks = (0..scripts.len()).map(|i| Sock { bound: false, addr: addr_of(i), read_timeout: None, waiting: false, wait_since: 0, clock: 1_000_000, answer: None, inbox: VecDeque::new() }).collect();
        g.stop = false;
        g.events.clear();
    }
    let actors: Vec<(Id, Probe)> = scripts.iter().enumerate().map(|(i, s)| (Id::from(addr_of(i)), Probe { idx: i, script: *s })).collect();
    let n = actors.len();
    let helper = std::thread::spawn(move || {
        let _ = spawn(ser, de, actors);
    });
    let mut steps = Vec::new();
    let mut died = None;
    let mut diverged: Option<String> = None;
    for k in 0..horizon {
        // quiescence: every actor is blocked in recv_from
        let mut g = e.m.lock().unwrap();
        let t0 = std::time::Instant::now();
        while !(g.socks.iter().all(|s| s.bound && s.waiting && s.answer.is_none())) {
            let (g2, to) = e.cv.wait_timeout(g, Duration::from_millis(200)).unwrap();
            g = g2;
            if to.timed_out() && t0.elapsed() > Duration::from_secs(40) {
                died = Some(format!("after {k} answers an actor thread is neither waiting in recv_from nor progressing (it died or hangs): {} sockets bound, waiting flags {:?}", g.socks.len(), g.socks.iter().map(|s| s.waiting).collect::<Vec<_>>()));
                break;
            }
        }
        if died.is_some() {
            break;
        }
        let opts = options(&g, n == 1);
        let chosen = if k < schedule.len() { schedule[k] } else { 0 };
        if chosen >= opts.len() {
            diverged = Some(format!("answer {k} of the prefix {:?} was option {chosen}, but only {} answers are possible now", schedule, opts.len()));
            break;
        }
        let (a, ans, desc) = opts[chosen].clone();
        if let Answer::Datagram(SocketAddr::V4(from), bytes) | Answer::LateDatagram(SocketAddr::V4(from), bytes) = &ans {
            if n > 1 && g.socks[a].inbox.front() == Some(&(*from, bytes.clone())) {
                g.socks[a].inbox.pop_front();
            }
        }
        steps.push(StepRec { n: opts.len(), chosen, desc });
        g.socks[a].answer = Some(ans);
        e.cv.notify_all();
    }
    // let the last answer be processed, then unwind the actor threads
    {
        let mut g = e.m.lock().unwrap();
        let t0 = std::time::Instant::now();
        while died.is_none() && !(g.socks.iter().all(|s| s.waiting && s.answer.is_none())) {
            let (g2, _) = e.cv.wait_timeout(g, Duration::from_millis(200)).unwrap();
            g = g2;
            if t0.elapsed() > Duration::from_secs(40) {
                died = Some("after the last answer an actor thread never came back to recv_from".into());
                break;
            }
        }
        g.stop = true;
        e.cv.notify_all();
    }
    if died.is_none() {
        let _ = helper.join();
    }
    let mut g = e.m.lock().unwrap();
    g.active = false;
    RunLog { events: std::mem::take(&mut g.events), steps, died, diverged }
}

// ---- the oracle: a sequential reference of the Actor contract ---------------------------------------

pub fn check_log(scripts: &[Script], log: &RunLog) -> Vec<(String, String)> {
    let mut v = Vec::new();
    if let Some(d) = &log.died {
        v.push(("e6:actor-thread-died".into(), d.clone()));
        return v;
    }
    let n = scripts.len();
    for a in 0..n {
        let evs: Vec<&Event> = log
            .events
            .iter()
            .filter(|e| match e {
                Event::Call { actor, .. } | Event::SendTo { actor, .. } | Event::Answered { actor, .. } | Event::SetReadTimeout { actor, .. } => *actor == a,
            })
            .collect();
        let mut calls = 0u32;
        // timers: tag -> (clock at the arming handler's entry, lower bound in ns)
        let mut armed: BTreeMap<u8, (u128, u128)> = BTreeMap::new();
        let mut pending_msg: Option<(u64, u8)> = None; // a valid datagram was handed to the runtime
        let mut expected_sends: VecDeque<(SocketAddrV4, Vec<u8>)> = VecDeque::new();
        for (i, e) in evs.iter().enumerate() {
            match e {
                Event::Call { kind, gen_seen, clock, .. } => {
                    if !expected_sends.is_empty() {
                        v.push(("e6:send-missing".into(), format!("actor {a}: handler commanded sends {:?} that were never emitted as datagrams", expected_sends)));
                        expected_sends.clear();
                    }
                    match kind {
                        Kind::Start => {
                            if i != 0 || calls != 0 {
                                v.push(("e6:on-start-not-first-or-repeated".into(), format!("actor {a}: on_start was call number {calls} (event {i})")));
                            }
                        }
                        _ => {
                            if calls == 0 {
                                v.push(("e6:handler-before-on-start".into(), format!("actor {a}: {:?} before on_start", kind)));
                            }
                            if *gen_seen != calls {
                                v.push(("e6:state-not-threaded".into(), format!("actor {a}: handler call {calls} saw generation {gen_seen}: it did not receive the state left by the previous handler")));
                            }
                        }
                    }
                    match kind {
                        Kind::Msg { src, msg } => match pending_msg.take() {
                            Some((s, m)) if s == *src && m == *msg => {}
                            other => v.push(("e6:on-msg-without-datagram".into(), format!("actor {a}: on_msg(src={src}, msg={msg}) but the datagram handed to the runtime was {:?}", other))),
                        },
                        Kind::Timeout(t) => {
                            if pending_msg.take().is_some() {
                                v.push(("e6:datagram-lost".into(), format!("actor {a}: a valid datagram was received but on_timeout ran instead of on_msg")));
                            }
                            match armed.remove(t) {
                                None => v.push(("e6:timer-fired-while-not-armed".into(), format!("actor {a}: on_timeout({t}) although the timer is not armed (never set, cancelled, or already fired)"))),
                                Some((at, lo)) => {
                                    if *clock < at + lo {
                                        v.push(("e6:timer-fired-early".into(), format!("actor {a}: on_timeout({t}) at virtual time {clock} ns, armed at >= {at} ns with lower bound {lo} ns")));
                                    }
                                }
                            }
                        }
                        Kind::Start => {}
                    }
                    calls += 1;
                    for c in cmds(scripts[a], kind) {
                        match c {
                            UCmd::Send(d, m) => {
                                // an unserializable message produces no datagram
                                if let Ok(b) = ser(&m) {
                                    expected_sends.push_back((addr_of(d), b));
                                }
                            }
                            UCmd::Set(t, ms, _) => {
                                armed.insert(t, (*clock, ms as u128 * 1_000_000));
                            }
                            UCmd::Cancel(t) => {
                                armed.remove(&t);
                            }
                        }
                    }
                }
                Event::SendTo { dst, bytes, .. } => match expected_sends.pop_front() {
                    Some((d, b)) if d == *dst && b == *bytes => {}
                    other => v.push(("e6:unexpected-datagram-sent".into(), format!("actor {a}: sent {:?} to {dst}, the handler's next commanded send was {:?}", bytes, other))),
                },
                Event::Answered { answer, .. } => {
                    if pending_msg.take().is_some() {
                        v.push(("e6:datagram-lost".into(), format!("actor {a}: a valid IPv4 datagram was received but no on_msg call followed")));
                    }
                    if let Answer::Datagram(SocketAddr::V4(from), bytes) | Answer::LateDatagram(SocketAddr::V4(from), bytes) = answer {
                        if let Ok(m) = de(bytes) {
                            pending_msg = Some((addr_num(*from), m));
                        }
                    }
                }
                Event::SetReadTimeout { .. } => {}
            }
        }
    }
    v
}

// ---- exploration -------------------------------------------------------------------------------------

struct Xp<'a> {
    scripts: &'a [Script],
    full_depth: usize,
    horizon: usize,
    max_dev: u32,
    runs: u64,
    shared: &'a SharedReport,
    out: &'a str,
    name: String,
    top: u64,
    shard: u64,
    nshards: u64,
    outcomes: std::collections::BTreeSet<String>,
}

impl<'a> Xp<'a> {
    fn go(&mut self, prefix: Vec<usize>, dev_used: u32) {
        if self.full_depth > 0 && prefix.len() == 2 {
            self.top += 1;
            if self.top % self.nshards != self.shard {
                return;
            }
        }
        let rv = json!({"engine": "e6", "scripts": format!("{:?}", self.scripts), "answers": prefix});
        begin_case(self.shared, &self.name, rv.clone(), "machinery:hang");
        let log = run_system(self.scripts, &prefix, self.horizon);
        end_case(self.shared);
        self.runs += 1;
        if let Some(d) = &log.diverged {
            // not a verdict about C17 and not a reason to stop: this prefix is abandoned, the rest is explored
            let mut r = self.shared.lock().unwrap();
            r.count("replays_diverged", 1);
            if !r.notes.iter().any(|n| n.starts_with("replay diverged")) {
                r.notes.push(format!("replay diverged ({}): {d}", self.name));
            }
            return;
        }
        let vs = check_log(self.scripts, &log);
        let died = log.died.is_some();
        {
            let mut r = self.shared.lock().unwrap();
            r.evaluations += 1;
            r.nontrivial += 1;
            r.traces += 1;
            r.transitions += log.steps.len() as u64;
            r.states += log.events.len() as u64;
            let calls: Vec<String> = log.events.iter().filter_map(|e| if let Event::Call { kind, .. } = e { Some(format!("{:?}", kind)) } else { None }).collect();
            self.outcomes.insert(calls.join(","));
            let steps: Vec<String> = log.steps.iter().map(|s| s.desc.clone()).collect();
            for (k, w) in vs {
                r.violation(&k, format!("{}: {w}; environment answers {:?}", self.name, steps), rv.clone());
            }
            r.sample(5003, || json!({"system": self.name, "answers": steps, "handler_calls": calls}));
            if died {
                r.notes.push("shard stopped: an actor thread died outside recv_from and cannot be recovered".into());
                r.exhaustive = false;
                write_out(&r, self.out);
                std::process::exit(3);
            }
        }
        for i in prefix.len()..log.steps.len() {
            // full_depth > 0: exhaustive mode (horizon == full_depth, every alternative is free);
            // full_depth == 0: deviation-bounded mode over the longer horizon
            let within_full = i < self.full_depth;
            for alt in 1..log.steps[i].n {
                let cost = if within_full { 0 } else { 1 };
                if dev_used + cost > self.max_dev {
                    continue;
                }
                if self.full_depth == 0 && prefix.is_empty() {
                    // deviation-bounded mode: shard on the first deviation (position, alternative)
                    self.top += 1;
                    if self.top % self.nshards != self.shard {
                        continue;
                    }
                }
                let mut p: Vec<usize> = log.steps[..i].iter().map(|s| s.chosen).collect();
                p.push(alt);
                self.go(p, dev_used + cost);
            }
        }
    }
}

pub fn run_c17(a: &Args, shared: &SharedReport) {
    let th = a.tier == "thorough";
    {
        let mut r = shared.lock().unwrap();
        r.rule = "every sequence of environment answers (datagram from the peer - at once, after a long wait, or in a maximum-size encoding / from an unknown address / undecodable / non-IPv4 / read time-out / spurious WouldBlock / Interrupted) to the full depth, and beyond it every sequence with a bounded number of deviations from the default answer, for each probe script; each sequence is one execution of the real spawn() event loop over the virtual socket and clock; plus the Id <-> address sweep; non-trivial = all".into();
        r.bounds = json!({"all_sequences_to_depth": if th {"5 (two-actor system: 4)"} else {"3"}, "deviation_bounded_horizon": if th {10} else {8}, "max_deviations": if th {3} else {2}, "scripts": ["A","B","C","D (simultaneously due timers that cancel / re-arm each other)","ping-pong (two actors, real send_to between them)"],
            "id_sweep": if th {"all 2^32 addresses x 4 ports, all 2^16 ports x 16 addresses, per-byte sweep"} else {"2^24 addresses (stride) x 4 ports, all 2^16 ports x 16 addresses, per-byte sweep"}});
    }
    let systems: Vec<(&str, Vec<Script>)> = vec![("script-A", vec![Script::A]), ("script-B", vec![Script::B]), ("script-C", vec![Script::C]), ("script-D", vec![Script::D]), ("ping-pong", vec![Script::Ping, Script::Pong])];
    for (name, scripts) in &systems {
        let full = if scripts.len() == 2 { if th { 4 } else { 3 } } else if th { 5 } else { 3 };
        // (1) every answer sequence to the full depth
        let mut x = Xp { scripts, full_depth: full, horizon: full, max_dev: 0, runs: 0, shared, out: &a.out, name: format!("{name}/all-sequences-to-{full}"), top: 0, shard: a.shard, nshards: a.nshards, outcomes: Default::default() };
        x.go(vec![], 0);
        let (r1, o1) = (x.runs, x.outcomes.len());
        // (2) every sequence with a bounded number of deviations from the default answer over a longer horizon
        let mut y = Xp { scripts, full_depth: 0, horizon: if th { 10 } else { 8 }, max_dev: if th { 3 } else { 2 }, runs: 0, shared, out: &a.out, name: format!("{name}/bounded-deviations"), top: 0, shard: a.shard, nshards: a.nshards, outcomes: Default::default() };
        y.go(vec![], 0);
        let mut r = shared.lock().unwrap();
        r.count(&format!("executions_{name}_exhaustive"), r1);
        r.count(&format!("executions_{name}_deviation_bounded"), y.runs);
        r.outcome(format!("{name}:{}:{}", o1, y.outcomes.len()));
        r.count("distinct_handler_call_sequences", (o1 + y.outcomes.len()) as u64);
    }
    id_sweep(a, shared, th);
    let mut r = shared.lock().unwrap();
    let div = r.counters.get("replays_diverged").copied().unwrap_or(0);
    if div > 0 {
        r.exhaustive = false;
        r.violation("machinery:e6-replay-diverged", format!("{div} prefixes could not be replayed: the event loop did not react deterministically to the same environment answers (those prefixes were abandoned)"), json!({"engine": "e6"}));
    }
}

fn id_sweep(a: &Args, shared: &SharedReport, th: bool) {
    let mut bad: Vec<(String, String)> = Vec::new();
    let mut n = 0u64;
    let check = |ip: u32, port: u16, bad: &mut Vec<(String, String)>| {
        let addr = SocketAddrV4::new(Ipv4Addr::from(ip), port);
        let id = Id::from(addr);
        let back = SocketAddrV4::from(id);
        if back != addr {
            bad.push(("e6:id-addr-roundtrip".into(), format!("{addr} -> {:?} -> {back}", id)));
        }
        // the Id's number is (ip << 16 | port): check through Id::from(usize)
        let num = (ip as u64) << 16 | port as u64;
        if id != Id::from(num as usize) {
            bad.push(("e6:id-addr-encoding".into(), format!("{addr} maps to {:?}, expected the 48-bit number {num}", id)));
        }
        if SocketAddrV4::from(Id::from(num as usize)) != addr {
            bad.push(("e6:id-to-addr".into(), format!("Id({num}) -> {} expected {addr}", SocketAddrV4::from(Id::from(num as usize)))));
        }
    };
    let stride: u64 = if th { 1 } else { 256 };
    let mut ip = a.shard * stride;
    while ip < (1u64 << 32) {
        for port in [0u16, 1, 80, 65535] {
            check(ip as u32, port, &mut bad);
            n += 1;
        }
        ip += a.nshards * stride;
        if bad.len() > 10 {
            break;
        }
    }
    if a.shard == 0 {
        for port in 0..=65535u16 {
            for k in 0..16u32 {
                check(k.wrapping_mul(0x1111_1111) ^ 0x0A00_0001, port, &mut bad);
                n += 1;
            }
        }
        // per-byte sweep against all-zero and all-one backgrounds
        for pos in 0..6 {
            for b in 0..=255u64 {
                for bg in [0u64, 0xFFFF_FFFF_FFFF] {
                    let num = (bg & !(0xFF << (8 * pos))) | (b << (8 * pos));
                    check((num >> 16) as u32, (num & 0xFFFF) as u16, &mut bad);
                    n += 1;
                }
            }
        }
        // ids >= 2^48 are outside the bijection: they must alias a 48-bit id's address
        for hi in [1u64 << 48, 1 << 55, u64::MAX] {
            let addr = SocketAddrV4::from(Id::from(hi as usize));
            let back = Id::from(addr);
            if back == Id::from(hi as usize) && hi >> 48 != 0 {
                bad.push(("e6:id-above-48-bits-roundtrips".into(), format!("{hi}")));
            }
            n += 1;
        }
    }
    let mut r = shared.lock().unwrap();
    r.evaluations += n;
    r.nontrivial += n;
    r.states += n;
    r.transitions += 2 * n;
    r.traces += n;
    r.outcome("id-sweep".into());
    for (k, w) in bad.into_iter().take(5) {
        r.violation(&k, w, json!({"engine": "e6id"}));
    }
}

pub fn replay(v: &Value) -> Vec<(String, String)> {
    println!("re-run the check; the failing case is the answer sequence {}", v);
    vec![]
}
