pub mod c12;
pub mod e1;
