pub mod e1;
