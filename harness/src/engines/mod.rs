pub mod c10;
pub mod c12;
pub mod c20;
pub mod e1;
pub mod e3;
pub mod e4;
pub mod e5;
