//! `GraphModel`: an arbitrary finite transition graph as a `stateright::Model`, plus the boring
//! oracles (reachability, distance, forest test, maximal-avoiding-path) — DESIGN appendix D.

use serde::{Deserialize, Serialize};
use stateright::*;
use std::collections::{BTreeMap, VecDeque};

pub const NAMES: [&str; 4] = ["p0", "p1", "p2", "p3"];

#[derive(Clone, Debug, PartialEq, Serialize, Deserialize)]
pub struct GraphModel {
    /// per node the action list: `Some(target)` or `None` (an ignored action)
    pub succ: Vec<Vec<Option<u8>>>,
    pub inits: Vec<u8>,
    /// bit s set <=> state s is inside the boundary
    pub boundary: u8,
    /// (expectation, mask of states where the condition is true); names are p0..p3
    pub props: Vec<(Expectation, u8)>,
    /// `actions()` panics in this state (model-code panic, for C05)
    #[serde(default)]
    pub panic_on: Option<u8>,
    /// `actions()` panics when called on the worker thread with this name (a panic in model code
    /// that only one worker runs into)
    #[serde(default)]
    pub panic_thread: Option<String>,
}

fn cond<const K: usize>(m: &GraphModel, s: &u8) -> bool {
    (m.props[K].1 >> *s) & 1 == 1
}

impl Model for GraphModel {
    type State = u8;
    type Action = u8;
    fn init_states(&self) -> Vec<u8> {
        self.inits.clone()
    }
    fn actions(&self, s: &u8, out: &mut Vec<u8>) {
        if Some(*s) == self.panic_on {
            panic!("verif: model code panics in state {s}");
        }
        if let Some(t) = &self.panic_thread {
            if std::thread::current().name() == Some(t.as_str()) {
                panic!("verif: model code panics on thread {t}");
            }
        }
        for i in 0..self.succ[*s as usize].len() {
            out.push(i as u8);
        }
    }
    fn next_state(&self, s: &u8, a: u8) -> Option<u8> {
        self.succ[*s as usize][a as usize]
    }
    fn within_boundary(&self, s: &u8) -> bool {
        (self.boundary >> *s) & 1 == 1
    }
    fn properties(&self) -> Vec<Property<Self>> {
        let conds: [fn(&GraphModel, &u8) -> bool; 4] =
            [cond::<0>, cond::<1>, cond::<2>, cond::<3>];
        self.props
            .iter()
            .enumerate()
            .map(|(k, (e, _))| Property {
                expectation: e.clone(),
                name: NAMES[k],
                condition: conds[k],
            })
            .collect()
    }
}

impl GraphModel {
    pub fn n(&self) -> usize {
        self.succ.len()
    }
    pub fn inb(&self, s: u8) -> bool {
        (self.boundary >> s) & 1 == 1
    }
    /// in-boundary successors of s through real transitions (one entry per action)
    pub fn out_edges(&self, s: u8) -> Vec<u8> {
        self.succ[s as usize]
            .iter()
            .filter_map(|t| *t)
            .filter(|t| self.inb(*t))
            .collect()
    }
}

#[derive(Clone, Debug)]
pub struct Oracle {
    /// reachable in-boundary states (mask)
    pub r: u8,
    /// shortest number of transitions from an in-boundary init state, through in-boundary states
    pub dist: Vec<Option<u32>>,
    pub forest: bool,
}

impl Oracle {
    pub fn new(m: &GraphModel) -> Oracle {
        let n = m.n();
        let mut dist: Vec<Option<u32>> = vec![None; n];
        let mut q = VecDeque::new();
        for &i in &m.inits {
            if m.inb(i) && dist[i as usize].is_none() {
                dist[i as usize] = Some(0);
                q.push_back(i);
            }
        }
        while let Some(s) = q.pop_front() {
            for t in m.out_edges(s) {
                if dist[t as usize].is_none() {
                    dist[t as usize] = Some(dist[s as usize].unwrap() + 1);
                    q.push_back(t);
                }
            }
        }
        let mut r = 0u8;
        for s in 0..n {
            if dist[s].is_some() {
                r |= 1 << s;
            }
        }
        // forest <=> every state of R is reached by exactly one path (as an action sequence from
        // the init multiset). Count paths with a depth cap: more than n steps means a cycle.
        let mut forest = true;
        let mut count = vec![0u32; n];
        let mut stack: Vec<(u8, usize)> = Vec::new();
        for &i in &m.inits {
            if m.inb(i) {
                stack.push((i, 0));
            }
        }
        while let Some((s, d)) = stack.pop() {
            count[s as usize] += 1;
            if count[s as usize] > 1 || d > n {
                forest = false;
                break;
            }
            for t in m.out_edges(s) {
                stack.push((t, d + 1));
            }
        }
        Oracle { r, dist, forest }
    }
    pub fn reach(&self, s: u8) -> bool {
        (self.r >> s) & 1 == 1
    }
    pub fn size(&self) -> usize {
        self.r.count_ones() as usize
    }
    /// some reachable state outside `mask`
    pub fn exists_not(&self, mask: u8) -> bool {
        self.r & !mask != 0
    }
    pub fn exists_in(&self, mask: u8) -> bool {
        self.r & mask != 0
    }
    /// shortest distance to a reachable state selected by `sel` (mask)
    pub fn min_dist(&self, sel: u8) -> Option<u32> {
        (0..self.dist.len())
            .filter(|s| (sel >> s) & 1 == 1)
            .filter_map(|s| self.dist[s])
            .min()
    }
    /// Is there a maximal in-boundary path from an init state on which `mask` never holds?
    /// (ends in a state without in-boundary successor, or loops forever)
    pub fn maximal_avoiding_path(&self, m: &GraphModel, mask: u8) -> bool {
        let n = m.n();
        let avoid = |s: u8| (mask >> s) & 1 == 0;
        // states reachable from inits through avoiding states only
        let mut seen = vec![false; n];
        let mut stack = Vec::new();
        for &i in &m.inits {
            if m.inb(i) && avoid(i) && !seen[i as usize] {
                seen[i as usize] = true;
                stack.push(i);
            }
        }
        let mut order = Vec::new();
        while let Some(s) = stack.pop() {
            order.push(s);
            for t in m.out_edges(s) {
                if avoid(t) && !seen[t as usize] {
                    seen[t as usize] = true;
                    stack.push(t);
                }
            }
        }
        // dead end?
        for &s in &order {
            if m.out_edges(s).is_empty() {
                return true;
            }
        }
        // cycle inside the avoiding reachable subgraph? (Kahn)
        let mut indeg = vec![0usize; n];
        for &s in &order {
            for t in m.out_edges(s) {
                if seen[t as usize] {
                    indeg[t as usize] += 1;
                }
            }
        }
        let mut q: Vec<u8> = order
            .iter()
            .copied()
            .filter(|s| indeg[*s as usize] == 0)
            .collect();
        let mut removed = 0;
        while let Some(s) = q.pop() {
            removed += 1;
            for t in m.out_edges(s) {
                if seen[t as usize] {
                    indeg[t as usize] -= 1;
                    if indeg[t as usize] == 0 {
                        q.push(t);
                    }
                }
            }
        }
        removed < order.len()
    }
}

/// All per-node action lists for `n` nodes: any subset of targets (ascending), optionally followed
/// by one ignored action; with `dups` additionally the variant that repeats the first edge.
pub fn node_action_lists(n: usize, ignored: bool, dups: bool) -> Vec<Vec<Option<u8>>> {
    let mut v = Vec::new();
    for sub in 0..(1u32 << n) {
        let base: Vec<Option<u8>> = (0..n as u8)
            .filter(|t| (sub >> t) & 1 == 1)
            .map(Some)
            .collect();
        v.push(base.clone());
        if ignored {
            let mut b = base.clone();
            // the ignored action goes first so that "skip and continue" logic is exercised
            b.insert(0, None);
            v.push(b);
        }
        if dups && !base.is_empty() {
            let mut b = base.clone();
            b.push(base[0]);
            v.push(b);
        }
    }
    v
}

/// Number of graphs for `n` nodes under the given options.
pub fn graph_count(n: usize, ignored: bool, dups: bool) -> u64 {
    (node_action_lists(n, ignored, dups).len() as u64).pow(n as u32)
}

/// The idx-th graph (mixed radix over per-node action lists).
pub fn graph_at(n: usize, lists: &[Vec<Option<u8>>], mut idx: u64) -> Vec<Vec<Option<u8>>> {
    let k = lists.len() as u64;
    let mut g = Vec::with_capacity(n);
    for _ in 0..n {
        g.push(lists[(idx % k) as usize].clone());
        idx /= k;
    }
    g
}

/// Init sets: every non-empty subset ascending; with `orders` also the descending order of every
/// subset with >= 2 elements.
pub fn init_sets(n: usize, orders: bool) -> Vec<Vec<u8>> {
    let mut v = Vec::new();
    for sub in 1..(1u32 << n) {
        let asc: Vec<u8> = (0..n as u8).filter(|t| (sub >> t) & 1 == 1).collect();
        v.push(asc.clone());
        if orders && asc.len() >= 2 {
            let mut d = asc.clone();
            d.reverse();
            v.push(d);
        }
    }
    v
}

pub fn exp_name(e: &Expectation) -> &'static str {
    match e {
        Expectation::Always => "always",
        Expectation::Sometimes => "sometimes",
        Expectation::Eventually => "eventually",
    }
}

/// Re-walk a path (states with the action taken) on the graph. Returns an error string if it is not
/// a real in-boundary execution starting in an init state.
pub fn validate_execution(m: &GraphModel, path: &[(u8, Option<u8>)]) -> Result<(), String> {
    if path.is_empty() {
        return Err("empty path".into());
    }
    let first = path[0].0;
    if !m.inits.contains(&first) {
        return Err(format!("first state {first} is not an init state"));
    }
    for (i, (s, a)) in path.iter().enumerate() {
        if (*s as usize) >= m.n() {
            return Err(format!("state {s} does not exist"));
        }
        if !m.inb(*s) {
            return Err(format!("state {s} (position {i}) is outside the boundary"));
        }
        if i + 1 < path.len() {
            let a = match a {
                Some(a) => *a,
                None => return Err(format!("no action at position {i}")),
            };
            let list = &m.succ[*s as usize];
            if (a as usize) >= list.len() {
                return Err(format!("action {a} does not exist in state {s}"));
            }
            if list[a as usize] != Some(path[i + 1].0) {
                return Err(format!(
                    "action {a} in state {s} leads to {:?}, path says {}",
                    list[a as usize],
                    path[i + 1].0
                ));
            }
        } else if a.is_some() {
            return Err("last element carries an action".into());
        }
    }
    Ok(())
}

pub type PathV = Vec<(u8, Option<u8>)>;
pub type Disc = BTreeMap<String, PathV>;

/// A fixed family of larger structured graphs (5-8 nodes: chains, rings, trees, grids with joins, lassos,
/// stars, several components, long-vs-short routes, ignored and duplicated actions) plus 48 graphs drawn
/// by a fixed linear congruential generator. They complement the exhaustive n<=3 enumeration with deeper
/// paths and wider frontiers; the claim for them is "these graphs", not "all graphs with 8 nodes".
/// Returns (name, action lists, init sets to use).
pub fn structured() -> Vec<(String, Vec<Vec<Option<u8>>>, Vec<Vec<u8>>)> {
    let e = |v: &[u8]| -> Vec<Option<u8>> { v.iter().map(|t| Some(*t)).collect() };
    let mut out: Vec<(String, Vec<Vec<Option<u8>>>, Vec<Vec<u8>>)> = Vec::new();
    // chain of 8
    out.push(("chain8".into(), (0..8u8).map(|i| if i < 7 { e(&[i + 1]) } else { vec![] }).collect(), vec![vec![0], vec![0, 4]]));
    // ring of 6
    out.push(("ring6".into(), (0..6u8).map(|i| e(&[(i + 1) % 6])).collect(), vec![vec![0], vec![3, 0]]));
    // binary tree with 7 nodes
    out.push(("bintree7".into(), (0..7u8).map(|i| if i < 3 { e(&[2 * i + 1, 2 * i + 2]) } else { vec![] }).collect(), vec![vec![0]]));
    // grid 2x4, moves right and down: many joins
    out.push(("grid2x4".into(), (0..8u8).map(|i| {
        let (r, c) = (i / 4, i % 4);
        let mut v = Vec::new();
        if c < 3 { v.push(Some(r * 4 + c + 1)); }
        if r < 1 { v.push(Some(4 + c)); }
        v
    }).collect(), vec![vec![0], vec![0, 5]]));
    // complete graph on 5 nodes
    out.push(("k5".into(), (0..5u8).map(|i| (0..5u8).filter(|j| *j != i).map(Some).collect()).collect(), vec![vec![0], vec![4, 2]]));
    // ladder: two chains with rungs
    out.push(("ladder8".into(), (0..8u8).map(|i| {
        let mut v = Vec::new();
        if i % 4 < 3 { v.push(Some(i + 1)); }
        if i < 4 { v.push(Some(i + 4)); }
        v
    }).collect(), vec![vec![0]]));
    // chain of diamonds
    out.push(("diamonds7".into(), vec![e(&[1, 2]), e(&[3]), e(&[3]), e(&[4, 5]), e(&[6]), e(&[6]), vec![]], vec![vec![0]]));
    // lasso: stem of 3 then a cycle of 4
    out.push(("lasso7".into(), vec![e(&[1]), e(&[2]), e(&[3]), e(&[4]), e(&[5]), e(&[6]), e(&[3])], vec![vec![0]]));
    // star out
    out.push(("star8".into(), (0..8u8).map(|i| if i == 0 { e(&[1, 2, 3, 4, 5, 6, 7]) } else { vec![] }).collect(), vec![vec![0]]));
    // star in: several init states joining in one node
    out.push(("instar6".into(), vec![e(&[5]), e(&[0]), e(&[0]), e(&[0]), e(&[0]), vec![]], vec![vec![1, 2, 3, 4], vec![4, 1]]));
    // two components, one with a cycle
    out.push(("twocomp6".into(), vec![e(&[1]), e(&[2]), vec![], e(&[4]), e(&[5]), e(&[3])], vec![vec![0, 3], vec![3, 0], vec![0]]));
    // chain with a shortcut and a back edge
    out.push(("shortcut6".into(), vec![e(&[1, 3]), e(&[2]), e(&[3]), e(&[4, 0]), e(&[5]), vec![]], vec![vec![0]]));
    // ignored and duplicated actions
    out.push(("ignored6".into(), vec![vec![Some(1), None, Some(1), Some(2)], vec![Some(3), Some(3)], vec![None, Some(4)], vec![None], vec![Some(5), None, Some(0)], vec![]], vec![vec![0]]));
    // a long and a short route to the same node
    out.push(("routes8".into(), vec![e(&[1, 7]), e(&[2]), e(&[3]), e(&[7]), vec![], vec![], e(&[5]), e(&[6])], vec![vec![0]]));
    // wide frontier joining in one node
    out.push(("wide8".into(), (0..8u8).map(|i| if i == 0 { e(&[1, 2, 3, 4, 5, 6]) } else if i < 7 { e(&[7]) } else { vec![] }).collect(), vec![vec![0]]));
    // a forest with three (five) roots: more initial states than workers
    out.push(("threeroots6".into(), vec![e(&[1]), vec![], e(&[3]), vec![], e(&[5]), vec![]], vec![vec![0, 2, 4], vec![4, 0, 2]]));
    out.push(("fiveroots8".into(), vec![e(&[5]), e(&[6]), e(&[7]), vec![], vec![], vec![], vec![], vec![]], vec![vec![0, 1, 2, 3, 4]]));
    // self loops along a chain
    out.push(("loops5".into(), vec![e(&[0, 1]), e(&[1, 2]), e(&[3, 2]), e(&[3, 4]), e(&[4])], vec![vec![0]]));
    // pseudo-random graphs from a fixed generator
    let mut x: u64 = 0x9E3779B97F4A7C15;
    let mut next = |m: u64| -> u64 {
        x = x.wrapping_mul(6364136223846793005).wrapping_add(1442695040888963407);
        (x >> 33) % m
    };
    for k in 0..48 {
        let n = 5 + next(4) as u8;
        let succ: Vec<Vec<Option<u8>>> = (0..n).map(|_| {
            let deg = next(4);
            (0..deg).map(|_| if next(9) == 0 { None } else { Some(next(n as u64) as u8) }).collect()
        }).collect();
        let inits = if next(3) == 0 { vec![vec![0], vec![next(n as u64) as u8, 0]] } else { vec![vec![0]] };
        let inits = inits.into_iter().map(|mut v: Vec<u8>| { v.dedup(); if v.len() == 2 && v[0] == v[1] { v.pop(); } v }).collect();
        out.push((format!("lcg{k}"), succ, inits));
    }
    out
}
