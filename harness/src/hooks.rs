//! Thin wrappers over the cfg-gated `stateright::verif` module (hooks H1..H5 in DESIGN §3).

/// Override of the per-block state budget of the exhaustive checkers (production value: 1500).
pub fn set_block_limit(b: Option<usize>) {
    stateright::verif::set_block_limit(b)
}

/// The real fingerprint of a value (what the checkers de-duplicate on).
pub fn fingerprint_of<T: std::hash::Hash>(v: &T) -> u64 {
    stateright::verif::fingerprint_of(v)
}
