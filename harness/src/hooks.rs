//! Thin wrappers over the cfg-gated `stateright::verif` module (hooks H1..H5 in DESIGN §3).

/// Override of the per-block state budget of the exhaustive checkers (production value: 1500).
pub fn set_block_limit(_b: Option<usize>) {}
