//! `srv <property> --tier quick|thorough --shard i/n --out file`   run one shard of one check
//! `srv replay <file>`                                             re-execute one recorded case
mod asys;
mod engines;
mod gm;
mod hooks;
mod report;
mod run;
mod sched;
mod zoo;

use report::*;
use std::sync::{Arc, Mutex};

pub struct Args {
    pub prop: String,
    pub tier: String,
    pub shard: u64,
    pub nshards: u64,
    pub out: String,
    pub seed: u64,
}

fn main() {
    let argv: Vec<String> = std::env::args().collect();
    if argv.len() < 2 {
        eprintln!("usage: srv <property|replay> ...");
        std::process::exit(2);
    }
    // Model-code panics are part of several cases; keep stderr quiet unless asked.
    if std::env::var("VERIF_VERBOSE").is_err() {
        std::panic::set_hook(Box::new(|_| {}));
    }
    if argv[1] == "replay" {
        let text = std::fs::read_to_string(&argv[2]).expect("read replay file");
        let v: serde_json::Value = serde_json::from_str(&text).expect("parse replay file");
        let engine = v["engine"].as_str().unwrap_or("").to_string();
        let vs = match engine.as_str() {
            "e1" => engines::e1::replay(&v),
            e if e.starts_with("e2") => engines::e2::replay(&v),
            e if e.starts_with("e3") => engines::e3::replay(&v),
            e if e.starts_with("e5") => engines::e5::replay(&v),
            e if e.starts_with("e6") => engines::e6::replay(&v),
            e if e.starts_with("c19") => engines::c19::replay(&v),
            other => {
                eprintln!("unknown engine {other}");
                std::process::exit(2);
            }
        };
        if vs.is_empty() {
            println!("replay: no violation");
            std::process::exit(0);
        }
        for (k, w) in vs {
            println!("replay: VIOLATION key={k} {w}");
        }
        std::process::exit(1);
    }
    let mut a = Args {
        prop: argv[1].clone(),
        tier: "quick".into(),
        shard: 0,
        nshards: 1,
        out: "/dev/stdout".into(),
        seed: 0,
    };
    let mut i = 2;
    while i < argv.len() {
        match argv[i].as_str() {
            "--tier" => {
                a.tier = argv[i + 1].clone();
                i += 1;
            }
            "--shard" => {
                let (x, y) = argv[i + 1].split_once('/').expect("i/n");
                a.shard = x.parse().unwrap();
                a.nshards = y.parse().unwrap();
                i += 1;
            }
            "--out" => {
                a.out = argv[i + 1].clone();
                i += 1;
            }
            "--seed" => {
                a.seed = argv[i + 1].parse().unwrap_or(0);
                i += 1;
            }
            _ => {}
        }
        i += 1;
    }
    let shared: SharedReport = Arc::new(Mutex::new(Report::new(&a.prop)));
    // per-case watchdog: 30 s (quick) / 120 s (thorough), x30 for cases that declare themselves long
    let wd = std::env::var("VERIF_WATCHDOG_S").ok().and_then(|v| v.parse().ok()).unwrap_or(if a.tier == "thorough" { 120 } else { 30 });
    spawn_watchdog(Arc::clone(&shared), a.out.clone(), wd);
    match a.prop.as_str() {
        "C01" => engines::e1::run_c01(&a, &shared),
        "C02" => engines::e1::run_c02(&a, &shared),
        "C03" => engines::e1::run_c03(&a, &shared),
        "C11" => engines::e1::run_c11(&a, &shared),
        "C12" => {
            {
                let mut r = shared.lock().unwrap();
                r.rule = "(i) full HasDiscoveries truth table; (ii)-(iv) every GraphModel in the stated space x finish variants / target_state_count 1..k / target_max_depth 1..k x strategies; (v) seeds x 2 choosers, each run twice; (vi) timeouts under the controlled scheduler (E2); non-trivial = |R| >= 2".into();
                r.bounds = serde_json::json!({"truth_table": "6 variants (AllOf/AnyOf over every subset of 3 names) x <=3 properties of every kind x every discovered subset", "graphs": "n<=3 (n=4 with few edges)", "targets": "1..4 (thorough 1..8)", "depths": "1..3 (thorough 1..5)", "seeds": "0..15 (thorough 0..63) x {UniformChooser, recording chooser}"});
            }
            if a.shard == 0 {
                engines::c12::truth_table(&shared);
            }
            engines::c12::seed_replay(&a, &shared);
            engines::e1::run_c12_graphs(&a, &shared);
            engines::e2::run_c12_timeouts(&a, &shared);
        }
        "C13" => engines::e1::run_c13(&a, &shared),
        "C04" => engines::e4::run_c04(&a, &shared),
        "C05" => engines::e2::run_c05(&a, &shared),
        "C12T" => engines::e2::run_c12_timeouts(&a, &shared),
        "C10" => engines::c10::run_c10(&a, &shared),
        "C15" => engines::c15::run_c15(&a, &shared),
        "C16" => engines::c16::run_c16(&a, &shared),
        "C17" => engines::e6::run_c17(&a, &shared),
        "C19" => engines::c19::run_c19(&a, &shared),
        "C20" => engines::c20::run_c20(&a, &shared),
        "C08" => engines::e5::run_testers(&a, &shared, "C08"),
        "C14" => engines::e5::run_testers(&a, &shared, "C14"),
        "C18" => {
            {
                let mut r = shared.lock().unwrap();
                r.rule = "(a) every operation sequence up to the length bound from every start value x every candidate return, and every (op, ret) history up to length 3, for the three specifications; (b) every reachable (state, shadow history) pair of every register-harness system in the family: scripted servers x 1-2 servers x 1-2 clients x put_count 0..2 x network kind x lossiness; non-trivial = clients issue at least one operation".into();
                r.bounds = serde_json::json!({"spec_sequences": "<=4 (thorough 5) operations", "servers": "every single-state reply table + two-state tables that flip behaviour; Put -> {silent, PutOk[, PutFail]}, Get -> {silent, GetOk(v in 3 values)}", "clients": "1-2", "put_count": "0..2", "networks": "ordered / non-duplicating / duplicating, lossy and not"});
            }
            engines::e5::run_c18_specs(&a, &shared);
            engines::c18::run_c18b(&a, &shared);
        }
        "C06" => engines::e3::run_c06(&a, &shared),
        "C07" => engines::e3::run_c07(&a, &shared),
        "C09" => engines::e3::run_c09(&a, &shared),
        other => {
            eprintln!("unknown property {other}");
            std::process::exit(2);
        }
    }
    let r = shared.lock().unwrap();
    write_out(&r, &a.out);
}
