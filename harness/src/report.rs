//! Shard-level result record. Every engine fills one of these; the python driver merges the
//! shards, matches known findings and writes /verif/evidence/<id>.json.

use serde_json::{json, Value};
use std::collections::{BTreeMap, BTreeSet};
use std::sync::{Arc, Mutex};
use std::time::Instant;

#[derive(Clone, Debug)]
pub struct Violation {
    /// engine:family:site — what known_findings.txt is matched against.
    pub key: String,
    pub what: String,
    /// Self-contained description of the failing case (fed back through `--replay`).
    pub replay: Value,
}

#[derive(Debug)]
pub struct Report {
    pub property: String,
    /// cases generated / executions of the real code
    pub evaluations: u64,
    /// distinct cases that are non-trivial by `rule` (the enumerations never repeat a case)
    pub nontrivial: u64,
    pub rule: String,
    /// distinct subject states / model instances evaluated
    pub states: u64,
    /// subject steps / checker runs / schedule steps executed
    pub transitions: u64,
    /// executions of the real code compared with the oracle
    pub traces: u64,
    pub outcomes: BTreeSet<String>,
    pub samples: Vec<Value>,
    pub violations: Vec<Violation>,
    pub per_key: BTreeMap<String, u64>,
    pub caps_hit: Vec<String>,
    pub notes: Vec<String>,
    pub bounds: Value,
    pub counters: BTreeMap<String, u64>,
    pub exhaustive: bool,
    pub current_case: Option<(Instant, String, Value, String)>,
}

pub const MAX_PER_KEY: u64 = 2;
pub const MAX_OUTCOMES: usize = 20_000;

impl Report {
    pub fn new(property: &str) -> Self {
        Report {
            property: property.to_string(),
            evaluations: 0,
            nontrivial: 0,
            rule: String::new(),
            states: 0,
            transitions: 0,
            traces: 0,
            outcomes: BTreeSet::new(),
            samples: Vec::new(),
            violations: Vec::new(),
            per_key: BTreeMap::new(),
            caps_hit: Vec::new(),
            notes: Vec::new(),
            bounds: json!({}),
            counters: BTreeMap::new(),
            exhaustive: true,
            current_case: None,
        }
    }
    pub fn violation(&mut self, key: &str, what: String, replay: Value) {
        let c = self.per_key.entry(key.to_string()).or_insert(0);
        *c += 1;
        if *c <= MAX_PER_KEY {
            self.violations.push(Violation {
                key: key.to_string(),
                what,
                replay,
            });
        }
    }
    pub fn outcome(&mut self, s: String) {
        if self.outcomes.len() < MAX_OUTCOMES {
            self.outcomes.insert(s);
        }
    }
    pub fn sample(&mut self, every: u64, v: impl FnOnce() -> Value) {
        // Keep a few, spread over the enumeration.
        // the first case of a shard is always kept, so that a shard with few cases still shows one
        if self.samples.is_empty() || (self.samples.len() < 4 && self.evaluations % every == 0) {
            self.samples.push(v());
        }
    }
    pub fn count(&mut self, k: &str, by: u64) {
        *self.counters.entry(k.to_string()).or_insert(0) += by;
    }
    pub fn cap(&mut self, s: String) {
        self.exhaustive = false;
        if !self.caps_hit.contains(&s) {
            self.caps_hit.push(s);
        }
    }
    pub fn to_json(&self) -> Value {
        json!({
            "property": self.property,
            "evaluations": self.evaluations,
            "nontrivial": self.nontrivial,
            "rule": self.rule,
            "states": self.states,
            "transitions": self.transitions,
            "traces": self.traces,
            "outcomes": self.outcomes.iter().collect::<Vec<_>>(),
            "samples": self.samples,
            "violations": self.violations.iter().map(|v| json!({"key": v.key, "what": v.what, "replay": v.replay})).collect::<Vec<_>>(),
            "per_key": self.per_key,
            "caps_hit": self.caps_hit,
            "notes": self.notes,
            "bounds": self.bounds,
            "counters": self.counters,
            "exhaustive": self.exhaustive,
        })
    }
}

pub type SharedReport = Arc<Mutex<Report>>;

/// Marks the start of a case for the watchdog. `hang_key` is the violation key reported if the case
/// never finishes (only used where non-termination of the subject *is* the property).
pub fn begin_case(r: &SharedReport, desc: &str, replay: Value, hang_key: &str) {
    r.lock().unwrap().current_case = Some((
        Instant::now(),
        desc.to_string(),
        replay,
        hang_key.to_string(),
    ));
}
pub fn end_case(r: &SharedReport) {
    r.lock().unwrap().current_case = None;
}

pub fn write_out(r: &Report, out: &str) {
    std::fs::write(out, serde_json::to_string(&r.to_json()).unwrap()).expect("write report");
}

/// Watchdog thread: if a single case runs longer than `limit_s`, the subject hangs (or the machinery
/// does). The shard report is written with a `hang` violation and the process exits with 3; the
/// driver decides (by key) whether that is a verdict or a machinery failure.
pub fn spawn_watchdog(r: SharedReport, out: String, limit_s: u64) {
    std::thread::Builder::new()
        .name("verif-watchdog".into())
        .spawn(move || loop {
            std::thread::sleep(std::time::Duration::from_millis(250));
            let mut g = r.lock().unwrap();
            let hung = match &g.current_case {
                // cases known to be long (big explicit-state searches) declare it in their key
                Some((t0, _, _, key)) => t0.elapsed().as_secs() >= if key.ends_with("hang-long") { limit_s * 30 } else { limit_s },
                None => false,
            };
            if hung {
                let (_, desc, replay, key) = g.current_case.take().unwrap();
                g.violation(
                    &key,
                    format!("case did not finish within {limit_s}s: {desc}"),
                    replay,
                );
                g.notes.push("shard aborted by watchdog".into());
                g.exhaustive = false;
                write_out(&g, &out);
                std::process::exit(3);
            }
        })
        .unwrap();
}
