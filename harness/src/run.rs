//! Drives the real checkers on a `GraphModel` and records everything observable.

use crate::gm::*;
use serde::{Deserialize, Serialize};
use stateright::*;
use std::collections::BTreeSet;
use std::panic::{catch_unwind, AssertUnwindSafe};
use std::sync::{Arc, Mutex};

#[derive(Clone, Debug, PartialEq, Serialize, Deserialize)]
pub enum Strategy {
    Bfs,
    Dfs,
    /// DFS with `symmetry_fn(min(s, swap12(s)))`
    DfsSym,
    /// on-demand, `run_to_completion()` sent right after spawning
    OnDemand,
    /// on-demand: `check_fingerprint(<unknown>)`, `check_fingerprint(init_states[k % len])`, then `run_to_completion()`
    /// (the control channel is FIFO, so the requests are handled before the run to completion starts)
    OnDemandProbe(usize),
    /// simulation with the uniform chooser
    SimUniform(u64),
    /// simulation with a scripted chooser (choice k = script[k] % len, 0 beyond the script)
    SimScript(u64, Vec<u8>),
    /// simulation, uniform chooser, `symmetry_fn` as for DfsSym
    SimUniformSym(u64),
}

impl Strategy {
    pub fn is_sim(&self) -> bool {
        matches!(
            self,
            Strategy::SimUniform(_) | Strategy::SimScript(..) | Strategy::SimUniformSym(_)
        )
    }
    pub fn is_sym(&self) -> bool {
        matches!(self, Strategy::DfsSym | Strategy::SimUniformSym(_))
    }
    pub fn short(&self) -> &'static str {
        match self {
            Strategy::Bfs => "bfs",
            Strategy::Dfs => "dfs",
            Strategy::DfsSym => "dfs+sym",
            Strategy::OnDemand => "on_demand",
            Strategy::OnDemandProbe(_) => "on_demand+probe",
            Strategy::SimUniform(_) => "sim",
            Strategy::SimScript(..) => "sim-script",
            Strategy::SimUniformSym(_) => "sim+sym",
        }
    }
}

#[derive(Clone, Debug, PartialEq, Serialize, Deserialize)]
pub enum Finish {
    All,
    Any,
    AnyFailures,
    AllFailures,
    AllOf(Vec<u8>),
    AnyOf(Vec<u8>),
}

impl Finish {
    pub fn to_real(&self) -> HasDiscoveries {
        let set = |v: &Vec<u8>| -> BTreeSet<&'static str> {
            v.iter().map(|k| NAMES[*k as usize]).collect()
        };
        match self {
            Finish::All => HasDiscoveries::All,
            Finish::Any => HasDiscoveries::Any,
            Finish::AnyFailures => HasDiscoveries::AnyFailures,
            Finish::AllFailures => HasDiscoveries::AllFailures,
            Finish::AllOf(v) => HasDiscoveries::AllOf(set(v)),
            Finish::AnyOf(v) => HasDiscoveries::AnyOf(set(v)),
        }
    }
    /// The plain-English reading of each variant name, over property indices.
    pub fn holds(&self, discovered: &BTreeSet<u8>, props: &[(Expectation, u8)]) -> bool {
        let failure = |k: usize| !matches!(props[k].0, Expectation::Sometimes);
        match self {
            Finish::All => (0..props.len()).all(|k| discovered.contains(&(k as u8))),
            Finish::Any => !discovered.is_empty(),
            Finish::AnyFailures => {
                (0..props.len()).any(|k| failure(k) && discovered.contains(&(k as u8)))
            }
            Finish::AllFailures => {
                (0..props.len()).all(|k| !failure(k) || discovered.contains(&(k as u8)))
            }
            Finish::AllOf(v) => v.iter().all(|k| discovered.contains(k)),
            Finish::AnyOf(v) => v.iter().any(|k| discovered.contains(k)),
        }
    }
}

#[derive(Clone, Debug, PartialEq, Serialize, Deserialize)]
pub struct Config {
    pub strategy: Strategy,
    pub threads: usize,
    pub finish: Finish,
    pub target_states: Option<usize>,
    pub target_depth: Option<usize>,
    /// worker block size override through the verif hook (None = production value 1500)
    pub block: Option<usize>,
}

impl Config {
    pub fn plain(strategy: Strategy) -> Config {
        Config {
            strategy,
            threads: 1,
            finish: Finish::All,
            target_states: None,
            target_depth: None,
            block: None,
        }
    }
}

#[derive(Clone, Debug, Serialize)]
pub struct Obs {
    /// paths handed to the visitor, in call order (across all workers)
    pub visited: Vec<PathV>,
    pub unique: usize,
    pub count: usize,
    pub max_depth: usize,
    pub is_done: bool,
    /// `discoveries()`; Err(msg) if the call panicked
    pub disc: Result<Disc, String>,
    pub assert_ok: bool,
    pub join_panicked: bool,
    /// discovery_classification() per discovered property
    pub class: std::collections::BTreeMap<String, String>,
    /// per property (in declaration order): discovery(name).is_some(), assert_any_discovery(name) returned,
    /// assert_no_discovery(name) returned
    #[serde(default)]
    pub per_prop: Vec<(bool, bool, bool)>,
}

pub fn swap12(s: &u8) -> u8 {
    let t = match *s {
        1 => 2,
        2 => 1,
        x => x,
    };
    t.min(*s)
}

#[derive(Clone)]
pub struct ScriptChooser(pub Vec<u8>);
impl Chooser<GraphModel> for ScriptChooser {
    type State = usize;
    fn new_state(&self, _seed: u64) -> usize {
        0
    }
    fn choose_initial_state(&self, st: &mut usize, inits: &[u8]) -> usize {
        let k = self.0.get(*st).copied().unwrap_or(0) as usize % inits.len();
        *st += 1;
        k
    }
    fn choose_action(&self, st: &mut usize, _s: &u8, actions: &[u8]) -> usize {
        let k = self.0.get(*st).copied().unwrap_or(0) as usize % actions.len();
        *st += 1;
        k
    }
}

fn finish_run<C: Checker<GraphModel>>(
    c: C,
    rtc: bool,
    rec: &Arc<Mutex<Vec<PathV>>>,
) -> Obs {
    finish_run_with(c, rtc, rec, &mut || true)
}

/// `between` runs after the checker was spawned (and told to run to completion) and before join():
/// this is where the controlled scheduler drives the parked worker threads.
pub fn finish_run_with<C: Checker<GraphModel>>(
    c: C,
    rtc: bool,
    rec: &Arc<Mutex<Vec<PathV>>>,
    between: &mut dyn FnMut() -> bool,
) -> Obs {
    if rtc {
        c.run_to_completion();
    }
    if !between() {
        // the workers are parked for good (deadlock / horizon verdict): never join them
        std::mem::forget(c);
        return Obs {
            visited: std::mem::take(&mut *rec.lock().unwrap()),
            unique: 0,
            count: 0,
            max_depth: 0,
            is_done: false,
            disc: Ok(Disc::new()),
            assert_ok: false,
            join_panicked: false,
            class: Default::default(),
            per_prop: Vec::new(),
        };
    }
    let joined = catch_unwind(AssertUnwindSafe(move || c.join()));
    let mut obs = Obs {
        visited: Vec::new(),
        unique: 0,
        count: 0,
        max_depth: 0,
        is_done: false,
        disc: Ok(Disc::new()),
        assert_ok: false,
        join_panicked: false,
        class: Default::default(),
        per_prop: Vec::new(),
    };
    match joined {
        Err(_) => {
            obs.join_panicked = true;
        }
        Ok(c) => {
            obs.unique = c.unique_state_count();
            obs.count = c.state_count();
            obs.max_depth = c.max_depth();
            obs.is_done = c.is_done();
            obs.disc = catch_unwind(AssertUnwindSafe(|| {
                c.discoveries()
                    .into_iter()
                    .map(|(k, p)| (k.to_string(), p.into_vec()))
                    .collect::<Disc>()
            }))
            .map_err(|e| panic_msg(&e));
            if let Ok(d) = &obs.disc {
                for k in d.keys() {
                    obs.class.insert(k.clone(), format!("{}", c.discovery_classification(k)));
                }
            }
            obs.assert_ok = catch_unwind(AssertUnwindSafe(|| c.assert_properties())).is_ok();
            if obs.disc.is_ok() {
                for k in 0..c.model().props.len() {
                    let name = NAMES[k];
                    let some = catch_unwind(AssertUnwindSafe(|| c.discovery(name).is_some())).unwrap_or(false);
                    let any_ok = catch_unwind(AssertUnwindSafe(|| {
                        c.assert_any_discovery(name);
                    }))
                    .is_ok();
                    let no_ok = catch_unwind(AssertUnwindSafe(|| c.assert_no_discovery(name))).is_ok();
                    obs.per_prop.push((some, any_ok, no_ok));
                }
            }
        }
    }
    obs.visited = std::mem::take(&mut *rec.lock().unwrap());
    obs
}

pub fn panic_msg(e: &Box<dyn std::any::Any + Send>) -> String {
    if let Some(s) = e.downcast_ref::<String>() {
        s.chars().take(300).collect()
    } else if let Some(s) = e.downcast_ref::<&str>() {
        s.to_string()
    } else {
        "panic".into()
    }
}

pub fn builder(
    m: &GraphModel,
    cfg: &Config,
    rec: &Arc<Mutex<Vec<PathV>>>,
) -> CheckerBuilder<GraphModel> {
    let rec2 = Arc::clone(rec);
    let mut b = m
        .clone()
        .checker()
        .threads(cfg.threads)
        .finish_when(cfg.finish.to_real())
        .visitor(move |p: Path<u8, u8>| rec2.lock().unwrap().push(p.into_vec()));
    if let Some(c) = cfg.target_states {
        b = b.target_state_count(c);
    }
    if let Some(d) = cfg.target_depth {
        b = b.target_max_depth(d);
    }
    if cfg.strategy.is_sym() {
        b = b.symmetry_fn(swap12);
    }
    b
}

/// One run of the real checker. Free-running (OS scheduler) when threads > 1.
pub fn run_case(m: &GraphModel, cfg: &Config) -> Obs {
    let rec: Arc<Mutex<Vec<PathV>>> = Arc::new(Mutex::new(Vec::new()));
    let b = builder(m, cfg, &rec);
    crate::hooks::set_block_limit(cfg.block);
    let obs = match &cfg.strategy {
        Strategy::Bfs => finish_run(b.spawn_bfs(), false, &rec),
        Strategy::Dfs | Strategy::DfsSym => finish_run(b.spawn_dfs(), false, &rec),
        Strategy::OnDemand => finish_run(b.spawn_on_demand(), true, &rec),
        Strategy::OnDemandProbe(k) => {
            let c = b.spawn_on_demand();
            // first a request for a fingerprint no state has (a no-op that every worker must still take off its queue)
            if let Some(f) = std::num::NonZeroU64::new(crate::hooks::fingerprint_of(&0xDEADu64)) {
                c.check_fingerprint(f);
            }
            if !m.inits.is_empty() {
                let s = m.inits[*k % m.inits.len()];
                if let Some(f) = std::num::NonZeroU64::new(crate::hooks::fingerprint_of(&s)) {
                    c.check_fingerprint(f);
                }
            }
            finish_run(c, true, &rec)
        }
        Strategy::SimUniform(seed) | Strategy::SimUniformSym(seed) => {
            finish_run(b.spawn_simulation(*seed, UniformChooser), false, &rec)
        }
        Strategy::SimScript(seed, script) => finish_run(
            b.spawn_simulation(*seed, ScriptChooser(script.clone())),
            false,
            &rec,
        ),
    };
    crate::hooks::set_block_limit(None);
    obs
}
