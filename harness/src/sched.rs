//! The controlled scheduler (DESIGN appendix C). Implements `stateright::verif::Runtime`: every
//! controlled thread parks inside each hook until the controller hands it the baton; exactly one
//! controlled thread runs at a time.

use std::cell::Cell;
use std::collections::{BTreeMap, HashMap};
use std::sync::{Arc, Condvar, Mutex};
use std::time::{Duration, SystemTime, UNIX_EPOCH};

#[derive(Clone, Debug, PartialEq)]
pub enum TState {
    NotStarted,
    Running,
    AtLock(usize),
    WaitingCv(usize, usize),
    AtRelock(usize),
    AtYield(&'static str),
    Sleeping(u128),
    /// notify_one with several waiters: the controller picks which one wakes
    AtNotifyChoice(usize, Vec<usize>),
    Exited,
}

#[derive(Clone, Copy, Debug, PartialEq)]
pub enum ClockPolicy {
    /// a sleeper may wake at any scheduling point (time jumps to its deadline)
    Anytime,
    /// a sleeper wakes only when no other thread is enabled
    Mintime,
}

pub struct Inner {
    pub active: bool,
    pub epoch: u64,
    pub names: HashMap<String, usize>,
    pub threads: Vec<TState>,
    pub granted: Option<usize>,
    pub owner: HashMap<usize, usize>,
    pub clock_ns: u128,
    /// stable small numbers for mutex / condvar ids, in order of first use
    pub ids: BTreeMap<usize, usize>,
    pub log: Vec<(usize, String)>,
    pub notify_pick: Option<usize>,
}

pub struct Sched {
    pub inner: Mutex<Inner>,
    pub cv: Condvar,
}

thread_local!(static MY: Cell<(u64, usize)> = const { Cell::new((0, usize::MAX)) });

impl Sched {
    pub fn new() -> Arc<Sched> {
        Arc::new(Sched {
            inner: Mutex::new(Inner {
                active: false,
                epoch: 0,
                names: HashMap::new(),
                threads: vec![],
                granted: None,
                owner: HashMap::new(),
                clock_ns: 0,
                ids: BTreeMap::new(),
                log: vec![],
                notify_pick: None,
            }),
            cv: Condvar::new(),
        })
    }

    pub fn begin(&self, names: &[String]) {
        let mut g = self.inner.lock().unwrap();
        g.active = true;
        g.epoch += 1;
        g.names = names.iter().enumerate().map(|(i, n)| (n.clone(), i)).collect();
        g.threads = vec![TState::NotStarted; names.len()];
        g.granted = None;
        g.owner.clear();
        g.clock_ns = 0;
        g.ids.clear();
        g.log.clear();
        g.notify_pick = None;
    }
    pub fn end(&self) {
        let mut g = self.inner.lock().unwrap();
        g.active = false;
        g.names.clear();
        self.cv.notify_all();
    }

    /// id of the calling thread if it is controlled in the current run
    fn me(&self, g: &Inner) -> Option<usize> {
        if !g.active {
            return None;
        }
        let (ep, id) = MY.with(|m| m.get());
        if ep == g.epoch {
            return if id == usize::MAX { None } else { Some(id) };
        }
        let cur = std::thread::current();
        let id = cur.name().and_then(|n| g.names.get(n).copied()).unwrap_or(usize::MAX);
        MY.with(|m| m.set((g.epoch, id)));
        if id == usize::MAX {
            None
        } else {
            Some(id)
        }
    }

    fn small(g: &mut Inner, raw: usize) -> usize {
        let n = g.ids.len();
        *g.ids.entry(raw).or_insert(n)
    }

    /// Announce a point and park until granted.
    fn park(&self, mut g: std::sync::MutexGuard<'_, Inner>, me: usize, st: TState, label: String) {
        g.threads[me] = st;
        g.log.push((me, label));
        if g.granted == Some(me) {
            g.granted = None;
        }
        self.cv.notify_all();
        while g.granted != Some(me) {
            g = self.cv.wait(g).unwrap();
        }
        g.threads[me] = TState::Running;
    }

    // ---- controller side ------------------------------------------------------------------------

    /// Wait until every thread in `who` has announced itself (is at a point or exited).
    pub fn wait_started(&self, who: &[usize]) {
        let mut g = self.inner.lock().unwrap();
        while who.iter().any(|i| g.threads[*i] == TState::NotStarted) {
            g = self.cv.wait(g).unwrap();
        }
    }

    pub fn grant(&self, i: usize, notify_pick: Option<usize>) {
        let mut g = self.inner.lock().unwrap();
        match g.threads[i].clone() {
            TState::AtLock(m) | TState::AtRelock(m) => {
                assert!(!g.owner.contains_key(&m), "granting a lock that is held");
                g.owner.insert(m, i);
            }
            TState::Sleeping(until) => {
                if until > g.clock_ns {
                    g.clock_ns = until;
                }
            }
            TState::AtNotifyChoice(_, ws) => {
                let w = ws[notify_pick.expect("pick")];
                if let TState::WaitingCv(_, m) = g.threads[w].clone() {
                    g.threads[w] = TState::AtRelock(m);
                }
            }
            _ => {}
        }
        g.threads[i] = TState::Running;
        g.granted = Some(i);
        self.cv.notify_all();
        while g.threads[i] == TState::Running {
            g = self.cv.wait(g).unwrap();
        }
    }

    pub fn snapshot(&self) -> (Vec<TState>, HashMap<usize, usize>, u128) {
        let g = self.inner.lock().unwrap();
        (g.threads.clone(), g.owner.clone(), g.clock_ns)
    }
    pub fn take_log(&self) -> Vec<(usize, String)> {
        std::mem::take(&mut self.inner.lock().unwrap().log)
    }
}

pub const BASE_SECS: u64 = 1_900_000_000;

impl stateright::verif::Runtime for Sched {
    fn controlled(&self) -> bool {
        let g = self.inner.lock().unwrap();
        self.me(&g).is_some()
    }
    fn lock(&self, m: usize) {
        let mut g = self.inner.lock().unwrap();
        if let Some(me) = self.me(&g) {
            let mm = Self::small(&mut g, m);
            self.park(g, me, TState::AtLock(mm), format!("lock m{mm}"));
        }
    }
    fn unlock(&self, m: usize) {
        let mut g = self.inner.lock().unwrap();
        if let Some(me) = self.me(&g) {
            let mm = Self::small(&mut g, m);
            if g.owner.get(&mm) == Some(&me) {
                g.owner.remove(&mm);
            }
        }
    }
    fn cv_wait(&self, cv: usize, m: usize) {
        let mut g = self.inner.lock().unwrap();
        if let Some(me) = self.me(&g) {
            let mm = Self::small(&mut g, m);
            let cc = Self::small(&mut g, cv);
            if g.owner.get(&mm) == Some(&me) {
                g.owner.remove(&mm);
            }
            self.park(g, me, TState::WaitingCv(cc, mm), format!("wait c{cc}"));
        }
    }
    fn cv_notify(&self, cv: usize, all: bool) {
        let mut g = self.inner.lock().unwrap();
        if !g.active {
            return;
        }
        let cc = Self::small(&mut g, cv);
        let waiters: Vec<usize> = (0..g.threads.len()).filter(|i| matches!(g.threads[*i], TState::WaitingCv(c, _) if c == cc)).collect();
        let me = self.me(&g);
        if all || waiters.len() <= 1 || me.is_none() {
            let wake: Vec<usize> = if all { waiters } else { waiters.into_iter().take(1).collect() };
            for w in wake {
                if let TState::WaitingCv(_, m) = g.threads[w].clone() {
                    g.threads[w] = TState::AtRelock(m);
                }
            }
            return;
        }
        let me = me.unwrap();
        self.park(g, me, TState::AtNotifyChoice(cc, waiters), format!("notify_one c{cc}"));
    }
    fn yield_point(&self, label: &'static str) {
        let g = self.inner.lock().unwrap();
        if let Some(me) = self.me(&g) {
            self.park(g, me, TState::AtYield(label), format!("yield {label}"));
        }
    }
    fn sleep(&self, d: Duration) {
        let g = self.inner.lock().unwrap();
        if let Some(me) = self.me(&g) {
            let until = g.clock_ns + d.as_nanos();
            self.park(g, me, TState::Sleeping(until), "sleep".into());
        }
    }
    fn now(&self) -> SystemTime {
        let g = self.inner.lock().unwrap();
        if !g.active {
            return SystemTime::now();
        }
        UNIX_EPOCH + Duration::from_secs(BASE_SECS) + Duration::from_nanos(g.clock_ns as u64)
    }
    fn thread_exit(&self) {
        let mut g = self.inner.lock().unwrap();
        let (ep, id) = MY.with(|m| m.get());
        if g.active && ep == g.epoch && id != usize::MAX && id < g.threads.len() {
            g.threads[id] = TState::Exited;
            g.log.push((id, "exit".into()));
            if g.granted == Some(id) {
                g.granted = None;
            }
            // a thread that dies while owning a model lock would be a harness bug
            g.owner.retain(|_, o| *o != id);
            self.cv.notify_all();
        }
    }
}

// ------------------------------------------------------------------------------------------------
// One controlled execution and the stateless depth-first exploration over schedules
// ------------------------------------------------------------------------------------------------

#[derive(Clone, Debug)]
pub struct Decision {
    /// number of alternatives at this point
    pub n: usize,
    pub chosen: usize,
    /// cost[j] = preemptions spent by taking alternative j
    pub cost: Vec<u32>,
    pub desc: String,
}

#[derive(Debug, Clone, PartialEq)]
pub enum RunEnd {
    AllExited,
    Deadlock(String),
    Horizon,
}

pub struct RunTrace {
    pub decisions: Vec<Decision>,
    pub end: RunEnd,
    pub steps: usize,
    /// virtual clock when the last *worker* exited
    pub clock_at_workers_done: u128,
    /// virtual clock when the last non-worker (timer) thread exited, if there is one
    pub timer_exit_clock: Option<u128>,
    pub log: Vec<(usize, String)>,
}

fn enabled(threads: &[TState], owner: &HashMap<usize, usize>, i: usize) -> bool {
    match &threads[i] {
        TState::AtLock(m) | TState::AtRelock(m) => !owner.contains_key(m),
        TState::AtYield(_) => true,
        TState::AtNotifyChoice(..) => true,
        _ => false,
    }
}

/// Drive one execution. `workers` are the thread ids whose exit ends the run (the timer thread, if
/// any, is finished afterwards). `schedule` is replayed as a prefix; afterwards choice 0 is taken.
pub fn drive(s: &Sched, workers: &[usize], all: &[usize], schedule: &[usize], policy: ClockPolicy, horizon: usize) -> RunTrace {
    drive_with(s, workers, all, &mut |k, n, _opts, _threads| if k < schedule.len() { schedule[k] } else { let _ = n; 0 }, policy, horizon)
}

/// `choose(decision index, number of options, option thread ids, thread states)` picks the option.
pub fn drive_with(s: &Sched, workers: &[usize], all: &[usize], choose: &mut dyn FnMut(usize, usize, &[usize], &[TState]) -> usize, policy: ClockPolicy, horizon: usize) -> RunTrace {
    s.wait_started(all);
    let mut decisions: Vec<Decision> = Vec::new();
    let mut current: Option<usize> = None;
    let mut steps = 0usize;
    let mut clock_done = 0u128;
    let mut workers_done = false;
    let mut timer_exit_clock: Option<u128> = None;
    let end;
    loop {
        let (threads, owner, clock) = s.snapshot();
        if !workers_done && workers.iter().all(|w| threads[*w] == TState::Exited) {
            workers_done = true;
            clock_done = clock;
        }
        if timer_exit_clock.is_none() && all.len() > workers.len() && all.iter().filter(|t| !workers.contains(t)).all(|t| threads[*t] == TState::Exited) {
            timer_exit_clock = Some(clock);
        }
        if all.iter().all(|w| threads[*w] == TState::Exited) {
            end = RunEnd::AllExited;
            break;
        }
        if steps >= horizon {
            end = RunEnd::Horizon;
            break;
        }
        // a pending notify choice of the running thread is resolved first (not a thread switch)
        if let Some(c) = current {
            if let TState::AtNotifyChoice(_, ws) = &threads[c] {
                let k = decisions.len();
                let chosen = choose(k, ws.len(), ws, &threads);
                assert!(chosen < ws.len(), "schedule diverged (notify choice)");
                decisions.push(Decision { n: ws.len(), chosen, cost: vec![0; ws.len()], desc: format!("t{c} notify_one wakes one of {:?}", ws) });
                s.grant(c, Some(chosen));
                steps += 1;
                continue;
            }
        }
        let mut opts: Vec<usize> = Vec::new();
        let cur_enabled = current.map(|c| enabled(&threads, &owner, c)).unwrap_or(false);
        if cur_enabled {
            opts.push(current.unwrap());
        }
        for i in all {
            if Some(*i) != current && enabled(&threads, &owner, *i) {
                opts.push(*i);
            }
        }
        let sleepers: Vec<usize> = all.iter().copied().filter(|i| matches!(threads[*i], TState::Sleeping(_))).collect();
        match policy {
            ClockPolicy::Anytime => {
                if !workers_done {
                    opts.extend(sleepers.iter().copied());
                } else if opts.is_empty() {
                    opts.extend(sleepers.iter().copied());
                }
            }
            ClockPolicy::Mintime => {
                if opts.is_empty() {
                    opts.extend(sleepers.iter().copied());
                }
            }
        }
        if opts.is_empty() {
            end = RunEnd::Deadlock(format!("no thread can run: {:?} (lock owners {:?})", threads, owner));
            break;
        }
        let k = decisions.len();
        let chosen = choose(k, opts.len(), &opts, &threads);
        assert!(chosen < opts.len(), "schedule diverged: decision {k} has {} options, schedule wants {chosen}", opts.len());
        // after the workers are done the leftover threads are only being drained: no branching
        let n = if workers_done { 1 } else { opts.len() };
        let cost: Vec<u32> = (0..n).map(|j| if cur_enabled && j != 0 { 1 } else { 0 }).collect();
        decisions.push(Decision { n, chosen, cost, desc: format!("run t{} of {:?}", opts[chosen], opts) });
        let t = opts[chosen];
        let pick = if let TState::AtNotifyChoice(..) = &threads[t] { Some(0) } else { None };
        s.grant(t, pick);
        current = Some(t);
        steps += 1;
    }
    RunTrace { decisions, end, steps, clock_at_workers_done: clock_done, timer_exit_clock, log: s.take_log() }
}

pub struct Explorer {
    pub bound: u32,
    pub executions: u64,
    pub steps: u64,
    pub max_steps: usize,
    pub max_executions: u64,
    pub capped: bool,
    pub preemption_histogram: BTreeMap<u32, u64>,
}

impl Explorer {
    pub fn new(bound: u32, max_executions: u64) -> Explorer {
        Explorer { bound, executions: 0, steps: 0, max_steps: 0, max_executions, capped: false, preemption_histogram: BTreeMap::new() }
    }
    /// `run(schedule)` executes once and returns the trace; it is also where the caller checks the
    /// oracle (it may return `false` to stop the exploration).
    pub fn explore(&mut self, prefix: Vec<usize>, run: &mut dyn FnMut(&[usize]) -> (RunTrace, bool)) -> bool {
        if self.executions >= self.max_executions {
            self.capped = true;
            return true;
        }
        let (tr, go_on) = run(&prefix);
        self.executions += 1;
        self.steps += tr.steps as u64;
        self.max_steps = self.max_steps.max(tr.steps);
        let spent: u32 = tr.decisions.iter().map(|d| d.cost.get(d.chosen).copied().unwrap_or(0)).sum();
        *self.preemption_histogram.entry(spent).or_insert(0) += 1;
        if !go_on {
            return false;
        }
        let mut before = 0u32;
        let choices: Vec<usize> = tr.decisions.iter().map(|d| d.chosen).collect();
        for i in 0..tr.decisions.len() {
            let d = &tr.decisions[i];
            if i >= prefix.len() {
                for alt in 1..d.n {
                    if before + d.cost[alt] > self.bound {
                        continue;
                    }
                    let mut p = choices[..i].to_vec();
                    p.push(alt);
                    if !self.explore(p, run) {
                        return false;
                    }
                }
            }
            before += d.cost[d.chosen];
        }
        true
    }
}
