//! A zoo of small scripted actor systems (tables for `Tab`) used by several engines.

use crate::asys::*;

fn o(st: StOp, cmds: Vec<Cmd>) -> Output {
    Output { st, cmds }
}
fn start(v: u8, cmds: Vec<Cmd>) -> ((u8, Ev), Output) {
    ((ANY, Ev::Start), o(StOp::Set(v), cmds))
}
fn on(local: u8, ev: Ev, st: StOp, cmds: Vec<Cmd>) -> ((u8, Ev), Output) {
    ((local, ev), o(st, cmds))
}
fn ch(k: &str, l: Vec<u8>) -> Cmd {
    Cmd::Choose(k.to_string(), l)
}

#[derive(Clone)]
pub struct ZooSys {
    pub name: &'static str,
    pub actors: Vec<Vec<((u8, Ev), Output)>>,
    pub init_net: Vec<Env>,
}

impl ZooSys {
    pub fn tabs(&self) -> Vec<Tab> {
        self.actors.iter().map(|e| Tab::new(e.clone())).collect()
    }
    pub fn starts(&self) -> Vec<Output> {
        self.tabs().iter().map(|t| t.lookup(ANY, &Ev::Start)).collect()
    }
    pub fn net(&self, k: NetKind) -> RNet {
        let mut n = RNet::empty(k);
        for e in &self.init_net {
            n.send(*e);
        }
        n
    }
}

pub fn zoo() -> Vec<ZooSys> {
    use Cmd::*;
    use Ev::*;
    use StOp::*;
    vec![
        ZooSys {
            name: "pingpong",
            actors: vec![
                vec![start(0, vec![Send(1, 0)]), on(0, Msg(1, 0), Set(1), vec![Send(1, 0)]), on(1, Msg(1, 1), Set(2), vec![])],
                vec![start(0, vec![]), on(0, Msg(0, 0), Set(1), vec![Send(0, 0)]), on(1, Msg(0, 0), Set(2), vec![Send(0, 1)])],
            ],
            init_net: vec![],
        },
        ZooSys {
            name: "timers",
            actors: vec![
                vec![
                    start(0, vec![SetTimer(0), SetTimer(1)]),
                    on(0, Timeout(0), Set(1), vec![Send(1, 0), SetTimer(0)]),
                    on(1, Timeout(0), Set(2), vec![CancelTimer(1)]),
                    on(ANY, Timeout(1), Keep, vec![SetTimer(1)]),
                ],
                vec![start(0, vec![]), on(0, Msg(0, 0), Set(1), vec![SetTimer(0)]), on(1, Timeout(0), Set(2), vec![Send(0, 1)])],
            ],
            init_net: vec![],
        },
        ZooSys {
            name: "random",
            actors: vec![
                vec![
                    start(0, vec![ch("x", vec![0, 1]), ch("y", vec![1])]),
                    on(0, Random(0), Set(1), vec![Send(1, 0)]),
                    on(0, Random(1), Set(2), vec![ch("x", vec![0])]),
                    on(2, Random(0), Set(3), vec![ch("y", vec![])]),
                    on(1, Random(1), Touch, vec![]),
                ],
                vec![start(0, vec![]), on(0, Msg(0, 0), Set(1), vec![ch("y", vec![0, 1])]), on(1, Random(1), Set(2), vec![Send(0, 1)])],
            ],
            init_net: vec![],
        },
        ZooSys {
            name: "duplicates",
            actors: vec![
                vec![start(0, vec![Send(1, 0), Send(1, 0), Send(1, 1)])],
                vec![
                    start(0, vec![]),
                    on(0, Msg(0, 0), Set(1), vec![]),
                    on(1, Msg(0, 0), Set(2), vec![]),
                    on(ANY, Msg(0, 1), Touch, vec![]),
                ],
            ],
            init_net: vec![],
        },
        ZooSys {
            name: "selfsend-and-nowhere",
            actors: vec![
                vec![start(0, vec![Send(0, 0), Send(9, 1)]), on(0, Msg(0, 0), Set(1), vec![Send(0, 1), Send(1, 1)]), on(1, Msg(0, 1), Set(2), vec![])],
                vec![start(0, vec![]), on(0, Msg(0, 1), Keep, vec![])],
            ],
            init_net: vec![(1, 0, 1)],
        },
        ZooSys {
            name: "broadcast3",
            actors: vec![
                vec![start(0, vec![Send(1, 0), Send(2, 0)]), on(0, Msg(1, 1), Set(1), vec![]), on(0, Msg(2, 1), Set(2), vec![]), on(1, Msg(2, 1), Set(3), vec![]), on(2, Msg(1, 1), Set(3), vec![])],
                vec![start(0, vec![]), on(0, Msg(0, 0), Set(1), vec![Send(0, 1)])],
                vec![start(0, vec![]), on(0, Msg(0, 0), Set(1), vec![Send(0, 1)])],
            ],
            init_net: vec![],
        },
        ZooSys {
            name: "timer-random-mix",
            actors: vec![
                vec![start(0, vec![SetTimer(0), ch("x", vec![0, 1])]), on(0, Timeout(0), Set(1), vec![ch("x", vec![])]), on(0, Random(0), Set(2), vec![CancelTimer(0), Send(1, 0)]), on(0, Random(1), Touch, vec![SetTimer(1)]), on(ANY, Timeout(1), Keep, vec![])],
                vec![start(0, vec![SetTimer(1)]), on(0, Msg(0, 0), Set(1), vec![CancelTimer(1)]), on(0, Timeout(1), Set(2), vec![])],
            ],
            init_net: vec![],
        },
        ZooSys {
            name: "two-flows",
            actors: vec![
                vec![start(0, vec![Send(1, 0), Send(1, 1)]), on(ANY, Msg(1, 0), Touch, vec![])],
                vec![start(0, vec![Send(0, 0)]), on(0, Msg(0, 0), Set(1), vec![]), on(0, Msg(0, 1), Set(2), vec![]), on(1, Msg(0, 1), Set(3), vec![]), on(2, Msg(0, 0), Set(4), vec![])],
            ],
            init_net: vec![(0, 1, 1)],
        },
        ZooSys {
            name: "echo-noop",
            actors: vec![
                vec![start(0, vec![Send(1, 0)]), on(ANY, Msg(1, 0), Keep, vec![])],
                vec![start(0, vec![]), on(0, Msg(0, 0), Set(1), vec![Send(0, 0), Send(0, 0)]), on(1, Msg(0, 0), Keep, vec![])],
            ],
            init_net: vec![],
        },
        ZooSys {
            // retransmission on a timer: the same envelope is sent again after it was delivered and/or dropped
            name: "retransmit",
            actors: vec![
                vec![start(0, vec![Send(1, 0), SetTimer(0)]), on(0, Timeout(0), Set(1), vec![Send(1, 0), SetTimer(0)]), on(1, Timeout(0), Set(2), vec![Send(1, 0)]), on(ANY, Msg(1, 1), Keep, vec![CancelTimer(0)])],
                vec![start(0, vec![]), on(0, Msg(0, 0), Set(1), vec![Send(0, 1)]), on(1, Msg(0, 0), Touch, vec![Send(0, 1)])],
            ],
            init_net: vec![],
        },
        ZooSys {
            // the same envelope several times in the initial network, and a re-send triggered by a random choice
            name: "init-duplicates",
            actors: vec![
                vec![start(0, vec![ch("x", vec![0, 1])]), on(0, Random(0), Set(1), vec![Send(1, 0)]), on(0, Random(1), Set(1), vec![Send(1, 0), Send(1, 0)]), on(ANY, Msg(1, 1), Touch, vec![])],
                vec![start(0, vec![]), on(0, Msg(0, 0), Set(1), vec![]), on(1, Msg(0, 0), Set(2), vec![Send(0, 1)]), on(2, Msg(0, 0), Set(3), vec![])],
            ],
            init_net: vec![(0, 1, 0), (0, 1, 0), (1, 0, 1), (1, 0, 1)],
        },
        ZooSys {
            name: "rearm",
            actors: vec![
                vec![start(0, vec![SetTimer(0)]), on(0, Timeout(0), Set(1), vec![SetTimer(0), SetTimer(0)]), on(1, Timeout(0), Set(2), vec![SetTimer(1), CancelTimer(1), SetTimer(0), CancelTimer(0)])],
                vec![start(5, vec![ch("x", vec![1]), ch("x", vec![0, 1])]), on(5, Random(0), Set(6), vec![]), on(5, Random(1), Set(7), vec![ch("y", vec![0]), ch("y", vec![])])],
            ],
            init_net: vec![],
        },
    ]
}
