#!/usr/bin/env python3
"""Regenerates /verif/MANIFEST.json from the table below (single source of truth for the interface)."""
import json, os, subprocess
ROOT = os.path.dirname(os.path.dirname(os.path.abspath(__file__)))
ids = [json.loads(l)["id"] for l in open(os.path.join(ROOT, "properties.jsonl"))]

# id -> (engine, technique, level category, level text, level note, design ref)
T = {
 "C01": ("E1 graphs", "exhaustive enumeration of all finite models with <=3 nodes (4 with few edges) plus a fixed family of 64 structured graphs with 5-8 nodes, executed on the real bfs/dfs/on-demand checkers (block sizes 1500/1/2/3), compared with a reachability oracle",
         "model_checking", "Every transition graph within the bound (self-loops, joins, cycles, ignored actions, several init states, every boundary mask) is run through the real checkers; the visitor's paths, the evaluated multiset, unique_state_count/state_count/is_done are compared with the closure computed by a 20-line oracle. Small-scope exhaustive: the right level for a universally quantified statement over models.",
         "oracle (reachability closure) and GraphModel adapter are trusted; thread counts >1 in this check are free-running (schedule quantifier is C05's)", "DESIGN §4 C01"),
 "C02": ("E1 graphs", "exhaustive enumeration of models x all always/sometimes labellings x strategies (incl. symmetry) on the real checkers vs. reachability oracle",
         "model_checking", "All mask pairs (always m1, sometimes m2) over all graphs within the bound; discovery <=> oracle existence, assert_properties / assert_any_discovery / assert_no_discovery / discovery() outcomes and is_done are checked on every run; the structured 5-8 node graphs add deeper paths and wider frontiers.",
         "oracle and adapter trusted; symmetry runs only on models invariant under the node swap used by the representative function", "DESIGN §4 C02"),
 "C03": ("E1 graphs", "exhaustive enumeration of models x property sets x five strategies x finish conditions/limits; every reported path re-walked on the graph",
         "model_checking", "Every (name, path) returned by discoveries() on every run is validated: real in-boundary execution from an init state; last state violates/satisfies; eventually: no state satisfies and the path is a dead end or (simulation) closes a cycle.",
         "simulation covered for seeds/scripts within the bound; multi-threaded runs here are free-running samples, the schedule quantifier is exercised by E2", "DESIGN §4 C03"),
 "C04": ("E4 identity", "exhaustive enumeration of all small values of every hashable type (alone and side by side), of both consistency testers after every well-formed history within a bound, and of all constructed/reachable actor-system states; all pairs decided by grouping on a recording hasher's stream, the real fingerprint and component-wise identity",
         "model_checking", "Every unordered pair within each family is decided: equal component-wise identity => same hasher stream and fingerprint however built; different identity => different stream and fingerprint; == agrees with component-wise identity. End-to-end: bfs unique_state_count equals the number of component-wise distinct reachable states for every zoo system.",
         "identical recorded write sequences collide under every hasher (sound); differing sequences are additionally compared on the real 64-bit fingerprint (accidental collisions are ~1e-12 likely at these sizes)", "DESIGN §4 C04"),
 "C05": ("E2 sched", "stateless exploration of all schedules (preemption-bounded, replay-from-prefix DFS) of the real worker threads and of the real job market under a cooperative scheduler installed through the cfg-gated hooks",
         "model_checking", "Every schedule within the preemption bound of every (model, strategy, threads, block size, stop reason) case: all workers exit, join returns or panics (never hangs), each state evaluated once across workers, nothing lost, verdicts equal the single-threaded oracle, discoveries are genuine; the market alone: every job handed out exactly once (at most once after an early stop), all workers exit. Deadlock = no enabled thread; non-termination = step horizon.",
         "sequential consistency between hook points (Relaxed atomics not modelled); a DashMap call is one atomic step; interleavings only at hook points (lock, wait, notify_one choice, yield points before shared-map accesses)", "DESIGN §4 C05, appendix C"),
 "C06": ("E3 actorstep", "exhaustive enumeration of (constructed system state x enabled action x handler output) triples on the real next_state/actions/init_states vs a reference interpreter; full exploration of scripted systems with canonical keys",
         "model_checking", "One-step conformance from every constructed (also unreachable) state, for every output of an 819-entry menu, per network kind and history mode; plus every reachable state and edge of 10 scripted systems x 12 configurations.",
         "reference interpreter (DESIGN appendix A) is the specification; ignored action and successor equal to the source are identified", "DESIGN §4 C06"),
 "C07": ("E3 actorstep", "exhaustive enumeration of network contents and of all paths to a depth bound of scripted systems, with a ghost ledger fed from the scripts' sends",
         "model_checking", "len/iter_all/iter_deliverable agree with the contents on every constructible network and at every state along every path; every delivery is of a sent-and-not-consumed envelope; ordered flows deliver in order without duplication; no redelivery after a drop; drops only when lossy.",
         "ledger sends come from the handler scripts (independent of the network code); consumption from executed actions", "DESIGN §4 C07"),
 "C08": ("E5 histories", "exhaustive enumeration of all event sequences (invocations/returns, all return values, in-flight operations, ill-formed events) within a thread/operation bound on the real LinearizabilityTester vs a definition-level search",
         "model_checking", "Every history within the bound for three specifications: is_consistent <=> a legal total order exists (program order + real time, any subset of in-flight operations); serialized_history is a member of that set; len; ill-formed events are rejected and the tester stays inconsistent for all continuations.",
         "the oracle is a direct search over the definition, cross-checked against the literal subsets-x-permutations formulation on all histories with <=3 operations", "DESIGN §4 C08, appendix B"),
 "C10": ("C10 symmetry", "exhaustive enumeration of sort vectors, Rewrite impls x all plans, constructed 3-actor states (representative vs harness-applied stable sorting permutation), all process-symmetric models (dfs with/without symmetry vs plain-search oracle)",
         "model_checking", "Plans are the stable sorting permutation; every Rewrite impl applies it element-wise; representative() is the image under that single permutation of all six components; symmetry reduction keeps verdicts, evaluates one state per orbit at least, never more than the plain run, and reports real paths.",
         "timer tags are id-free (the Timers impl does not rewrite them)", "DESIGN §4 C10"),
 "C14": ("E5 histories", "same enumeration as C08 on the real SequentialConsistencyTester vs the definition without the real-time clause; clone test with every next event",
         "model_checking", "is_consistent <=> a legal total order respecting program order exists; serialization is a member; every history accepted by the linearizability tester is accepted; recording into a clone never alters the original; ill-formed histories rejected.",
         "as C08", "DESIGN §4 C14"),
 "C15": ("C15 adapters", "exhaustive enumeration of adapter placement x event kind x handler output vs a direct call of the wrapped actor; state-graph isomorphism of wrapped vs bare scripted systems; all Vec-client scripts x incoming sequences",
         "model_checking", "Every start/message/timeout/random event reaches the wrapped actor once with the same arguments; commands and state changes come back unchanged; wrapped systems have the same reachable graph as bare ones.",
         "graphs compared through canonical keys after unwrapping states/messages", "DESIGN §4 C15"),
 "C16": ("C16 link", "explicit-state search of every reachable state of link-wrapped systems (stateful, echoing and stateless receivers) over lossy duplicating/reordering networks within a network-size boundary; invariants evaluated in every state, progress decided by backward reachability on the explored graph",
         "model_checking", "In every reachable state the handed-over sequence is a prefix of the sent one, nothing is acknowledged (no longer retransmitted) before it was handed over, all-acknowledged implies equality, and (backward reachability over the explored graph) a state in which every flow is handed over completely remains reachable.",
         "states de-duplicated on the subject's own Hash/Eq (validated separately by C04); pending acknowledgements observed through what the link would retransmit; wrapped state through hook H5", "DESIGN §4 C16"),
 "C17": ("E6 vnet", "exhaustive enumeration of environment answer sequences (to a depth; beyond it deviation-bounded) for the real spawn() event loop running on real threads over a virtual socket and clock; arithmetic sweep of the Id <-> address conversion",
         "model_checking", "For every answer sequence within the bounds: on_start first and once; every on_msg corresponds to a delivered decodable IPv4 datagram with the right Id and message; every Send is one datagram to the encoded address, in order; a timer fires only while armed and not before the lower bound of its latest arming; every handler sees the previous state. Id<->address: 2^24 (thorough 2^32) addresses x 4 ports, 2^16 ports x 16 addresses, per-byte sweep.",
         "the actor threads run freely but only ever block in recv_from, which the controller answers at quiescence; one virtual clock per actor, 1 ns per read; datagrams arrive at once, after half the armed wait, or in a 65507-byte encoding; on_random is outside the statement; the 2^48 product space is covered per dimension, not jointly", "DESIGN §4 C17"),
 "C18": ("E5 histories + C18 harness", "exhaustive enumeration of operation sequences/candidate returns on the three sequential specifications; explicit-state search over (system state, shadow history) pairs of register-harness systems built from scripted servers",
         "model_checking", "is_valid_step == (invoke == ret) with equal resulting object when accepted; is_valid_history accepts exactly the invoked sequences; in every reachable state of every harness system the recorded history equals the history rebuilt from the client-visible calls and replies, every shadow call is well-formed, request ids are fresh and at most one operation is outstanding per client.",
         "after a rejected step only the boolean is compared (the object is dead in every use the library makes of it); servers answer each request at most once with the request's id", "DESIGN §4 C18"),
 "C19": ("C19 explorer", "exhaustive enumeration of action sequences (Path API), of request sequences to a live on-demand checker, and of fingerprint paths plus one-token corruptions against a live serve() over loopback HTTP",
         "model_checking", "from_actions is Some exactly for executions and its accessors/encode agree with an independent walk; the same execution rebuilt from its fingerprints (hook H7) visits the same states through genuine actions; each check-fingerprint request evaluates exactly the requested pending state and run-to-completion finishes like BFS; GET /.states returns exactly the model's actions/successors/fingerprints for every execution and 404 for every corrupted path; /.status reports exact counts and paths that decode to genuine witnesses.",
         "HTTP is spoken over the sandbox's loopback interface; requests are synchronised with the on-demand acknowledgement counter (hook), not with sleeps; ui/app.js (browser side) is not exercised", "DESIGN §4 C19"),
 "C20": ("C20 laws", "exhaustive enumeration of all small vector clocks (pairs, triples) and dense maps (construction orders, inserts, plans)",
         "model_checking", "Partial-order laws, equality up to trailing zeros, hash consistency, merge_max = least upper bound within the domain, increment strictly greater; dense maps order-independent, gap/duplicate rejection, insert semantics, rewrite moves values to rewritten keys.",
         "least-upper-bound minimality is checked against all upper bounds inside the enumerated domain", "DESIGN §4 C20"),
 "C09": ("E3 actorstep", "exhaustive enumeration of crash points: every constructed state x budget; differential crashed-vs-up step comparison; monitor over all reachable states; real bfs/dfs visited set vs independent exploration; identical peers with a crash budget under dfs + symmetry vs the plain search (class coverage)",
         "fault_enumeration", "Crash offered exactly when allowed; crash step clears timers/choices only; all other actions behave as before; nothing is ever enabled for a crashed actor on any reachable state; every crashed-vector within the budget is reached and the real checkers evaluate every such state.",
         "reference interpreter and xplore (canonical keys from public fields) trusted", "DESIGN §4 C09"),
 "C11": ("E1 graphs", "exhaustive enumeration of models x eventually masks x strategies vs. maximal-avoiding-path oracle; exactness on oracle-detected forests",
         "model_checking", "No false alarm on any model within the bound; exact on every forest-shaped model within the bound.",
         "oracle (search for a dead end or cycle in the not-P subgraph; path-count forest test) trusted", "DESIGN §4 C11"),
 "C12": ("E1 graphs + truth table + E2 sched", "full truth table of HasDiscoveries; exhaustive enumeration of models x finish variants x target counts x depth limits x strategies; seeds x choosers replayed twice; timeouts: schedule exploration with a virtual clock",
         "model_checking", "Every variant/discovered-subset/property-kind combination; early stop only when the condition holds; state_count >= min(target,total); no path deeper than the limit and BFS complete below it; max_depth() consistent with the visited paths; same first simulation trace per seed.",
         "timeouts are decided under the controlled scheduler with a virtual clock (unexpired: time may only advance when no thread can run; expiring: the timer fires after k worker decisions for a list of k, the workers running under the default and under a round-robin policy before that); real-time behaviour is not measured", "DESIGN §4 C12"),
 "C13": ("E1 graphs", "exhaustive enumeration of models x labellings on single-threaded spawn_bfs vs. BFS-distance oracle",
         "model_checking", "Visitor order non-decreasing in depth, each state evaluated at its true distance, every always/sometimes witness has the minimum number of transitions.",
         "oracle distances trusted", "DESIGN §4 C13"),
}
NOT_YET = "check not built yet (work in progress; will be claimed)"
hook_commits = []
hc = os.path.join(ROOT, "hooks_commits.txt")
if os.path.exists(hc):
    hook_commits = [l.split()[0] for l in open(hc) if l.strip() and not l.startswith("#")]
checks = []
for i in ids:
    if i not in T:
        continue
    eng, tech, cat, text, note, ref = T[i]
    checks.append({
        "property_id": i,
        "quick_cmd": f"./check {i} --tier quick",
        "thorough_cmd": f"./check {i} --tier thorough",
        "evidence_file": f"/verif/evidence/{i}.json",
        "replay_cmd_template": f"./check {i} --replay {{path}}",
        "engine": eng,
        "level_claimed": {"category": cat, "text": text, "design_ref": ref},
        "level_note": note,
        "technique": tech,
    })
m = {
 "version": 1,
 "setup_cmd": "cd /verif/harness && CARGO_NET_OFFLINE=true cargo build --release --offline",
 "hooks": {"guard": "getong_stateright_verif",
           "enable": "RUSTFLAGS='--cfg getong_stateright_verif' via /verif/harness/.cargo/config.toml (harness depends on /repo by path, so every check rebuilds from /repo's working tree)",
           "baseline_off_cmd": "cd /repo && cargo test --workspace --no-fail-fast --offline",
           "source_commits": hook_commits, "add_only": True},
 "engines": [
   {"name": "E2 sched", "path": "harness/src/engines/e2.rs + harness/src/sched.rs", "serves_properties": ["C05","C12","C03"], "kind_free_text": "controlled scheduler over the real worker threads / job market: preemption-bounded stateless DFS over schedules, virtual clock"},
   {"name": "E6 vnet", "path": "harness/src/engines/e6.rs", "serves_properties": ["C17"], "kind_free_text": "virtual UDP socket + clock environment under the real spawn(); answer-sequence enumeration with deviation bounding"},
   {"name": "C18 harness", "path": "harness/src/engines/c18.rs", "serves_properties": ["C18"], "kind_free_text": "register-harness systems: search over (state, shadow history)"},
   {"name": "C19 explorer", "path": "harness/src/engines/c19.rs", "serves_properties": ["C19"], "kind_free_text": "Path API / on-demand request sequences / live Explorer over loopback HTTP"},
   {"name": "E3 actorstep", "path": "harness/src/engines/e3.rs", "serves_properties": ["C06","C07","C09"], "kind_free_text": "explicit enumeration of actor-system states/actions/handler outputs on the real ActorModel vs a reference interpreter; xplore over scripted systems"},
   {"name": "E4 identity", "path": "harness/src/engines/e4.rs", "serves_properties": ["C04"], "kind_free_text": "all pairs of small values: recording hasher stream, real fingerprint, component-wise identity"},
   {"name": "E5 histories", "path": "harness/src/engines/e5.rs", "serves_properties": ["C08","C14","C18"], "kind_free_text": "all small concurrent histories on the real testers vs definition-level search"},
   {"name": "C10 symmetry", "path": "harness/src/engines/c10.rs", "serves_properties": ["C10"], "kind_free_text": "plans, rewrites, representatives, symmetric models"},
   {"name": "C15 adapters", "path": "harness/src/engines/c15.rs", "serves_properties": ["C15"], "kind_free_text": "adapter transparency per call and per system"},
   {"name": "C16 link", "path": "harness/src/engines/c16.rs", "serves_properties": ["C16"], "kind_free_text": "explicit-state search of ORL systems"},
   {"name": "C20 laws", "path": "harness/src/engines/c20.rs", "serves_properties": ["C20"], "kind_free_text": "algebraic laws by enumeration"},
   {"name": "E1 graphs", "path": "harness/src/engines/e1.rs", "serves_properties": ["C01","C02","C03","C11","C12","C13"], "kind_free_text": "explicit enumeration of all small finite models, executed on the real checkers, compared with graph oracles"},
 ],
 "checks": checks,
 "notes": "exit 0 held / 1 VIOLATION / 2 machinery. known_findings.txt lists recorded findings and fixed defects. See DESIGN.md.",
 "not_applicable": [{"property_id": i, "reason": NOT_YET} for i in ids if i not in T],
}
json.dump(m, open(os.path.join(ROOT, "MANIFEST.json"), "w"), indent=1)
print("claimed", len(checks), "not yet", len(m["not_applicable"]))
