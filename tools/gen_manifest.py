#!/usr/bin/env python3
"""Regenerates /verif/MANIFEST.json from the table below (single source of truth for the interface)."""
import json, os, subprocess
ROOT = os.path.dirname(os.path.dirname(os.path.abspath(__file__)))
ids = [json.loads(l)["id"] for l in open(os.path.join(ROOT, "properties.jsonl"))]

# id -> (engine, technique, level category, level text, level note, design ref)
T = {
 "C01": ("E1 graphs", "exhaustive enumeration of all finite models with <=3 nodes (4 with few edges) executed on the real bfs/dfs/on-demand checkers, compared with a reachability oracle",
         "model_checking", "Every transition graph within the bound (self-loops, joins, cycles, ignored actions, several init states, every boundary mask) is run through the real checkers; the visitor's paths, the evaluated multiset, unique_state_count/state_count/is_done are compared with the closure computed by a 20-line oracle. Small-scope exhaustive: the right level for a universally quantified statement over models.",
         "oracle (reachability closure) and GraphModel adapter are trusted; thread counts >1 in this check are free-running (schedule quantifier is C05's)", "DESIGN §4 C01"),
 "C02": ("E1 graphs", "exhaustive enumeration of models x all always/sometimes labellings x strategies (incl. symmetry) on the real checkers vs. reachability oracle",
         "model_checking", "All mask pairs (always m1, sometimes m2) over all graphs within the bound; discovery <=> oracle existence, assert_properties outcome and is_done are checked on every run.",
         "oracle and adapter trusted; symmetry runs only on models invariant under the node swap used by the representative function", "DESIGN §4 C02"),
 "C03": ("E1 graphs", "exhaustive enumeration of models x property sets x five strategies x finish conditions/limits; every reported path re-walked on the graph",
         "model_checking", "Every (name, path) returned by discoveries() on every run is validated: real in-boundary execution from an init state; last state violates/satisfies; eventually: no state satisfies and the path is a dead end or (simulation) closes a cycle.",
         "simulation covered for seeds/scripts within the bound; multi-threaded runs here are free-running samples, the schedule quantifier is exercised by E2", "DESIGN §4 C03"),
 "C04": ("E4 identity", "exhaustive enumeration of all small values of every hashable type and of all constructed/reachable actor-system states; all pairs decided by grouping on a recording hasher's stream, the real fingerprint and component-wise identity",
         "model_checking", "Every unordered pair within each family is decided: equal component-wise identity => same hasher stream and fingerprint however built; different identity => different stream and fingerprint; == agrees with component-wise identity. End-to-end: bfs unique_state_count equals the number of component-wise distinct reachable states for every zoo system.",
         "identical recorded write sequences collide under every hasher (sound); differing sequences are additionally compared on the real 64-bit fingerprint (accidental collisions are ~1e-12 likely at these sizes)", "DESIGN §4 C04"),
 "C06": ("E3 actorstep", "exhaustive enumeration of (constructed system state x enabled action x handler output) triples on the real next_state/actions/init_states vs a reference interpreter; full exploration of scripted systems with canonical keys",
         "model_checking", "One-step conformance from every constructed (also unreachable) state, for every output of an 819-entry menu, per network kind and history mode; plus every reachable state and edge of 10 scripted systems x 12 configurations.",
         "reference interpreter (DESIGN appendix A) is the specification; ignored action and successor equal to the source are identified", "DESIGN §4 C06"),
 "C07": ("E3 actorstep", "exhaustive enumeration of network contents and of all paths to a depth bound of scripted systems, with a ghost ledger fed from the scripts' sends",
         "model_checking", "len/iter_all/iter_deliverable agree with the contents on every constructible network and at every state along every path; every delivery is of a sent-and-not-consumed envelope; ordered flows deliver in order without duplication; no redelivery after a drop; drops only when lossy.",
         "ledger sends come from the handler scripts (independent of the network code); consumption from executed actions", "DESIGN §4 C07"),
 "C09": ("E3 actorstep", "exhaustive enumeration of crash points: every constructed state x budget; differential crashed-vs-up step comparison; monitor over all reachable states; real bfs/dfs visited set vs independent exploration",
         "fault_enumeration", "Crash offered exactly when allowed; crash step clears timers/choices only; all other actions behave as before; nothing is ever enabled for a crashed actor on any reachable state; every crashed-vector within the budget is reached and the real checkers evaluate every such state.",
         "reference interpreter and xplore (canonical keys from public fields) trusted", "DESIGN §4 C09"),
 "C11": ("E1 graphs", "exhaustive enumeration of models x eventually masks x strategies vs. maximal-avoiding-path oracle; exactness on oracle-detected forests",
         "model_checking", "No false alarm on any model within the bound; exact on every forest-shaped model within the bound.",
         "oracle (search for a dead end or cycle in the not-P subgraph; path-count forest test) trusted", "DESIGN §4 C11"),
 "C12": ("E1 graphs + truth table", "full truth table of HasDiscoveries; exhaustive enumeration of models x finish variants x target counts x depth limits x strategies; seeds x choosers replayed twice",
         "model_checking", "Every variant/discovered-subset/property-kind combination; early stop only when the condition holds; state_count >= min(target,total); no path deeper than the limit and BFS complete below it; same first simulation trace per seed.",
         "timeouts are decided under the controlled scheduler (E2) - until that engine is registered the timeout clause is not covered by this check", "DESIGN §4 C12"),
 "C13": ("E1 graphs", "exhaustive enumeration of models x labellings on single-threaded spawn_bfs vs. BFS-distance oracle",
         "model_checking", "Visitor order non-decreasing in depth, each state evaluated at its true distance, every always/sometimes witness has the minimum number of transitions.",
         "oracle distances trusted", "DESIGN §4 C13"),
}
NOT_YET = "check not built yet (work in progress; will be claimed)"
hook_commits = []
hc = os.path.join(ROOT, "hooks_commits.txt")
if os.path.exists(hc):
    hook_commits = [l.split()[0] for l in open(hc) if l.strip() and not l.startswith("#")]
checks = []
for i in ids:
    if i not in T:
        continue
    eng, tech, cat, text, note, ref = T[i]
    checks.append({
        "property_id": i,
        "quick_cmd": f"./check {i} --tier quick",
        "thorough_cmd": f"./check {i} --tier thorough",
        "evidence_file": f"/verif/evidence/{i}.json",
        "replay_cmd_template": f"./check {i} --replay {{path}}",
        "engine": eng,
        "level_claimed": {"category": cat, "text": text, "design_ref": ref},
        "level_note": note,
        "technique": tech,
    })
m = {
 "version": 1,
 "setup_cmd": "cd /verif/harness && CARGO_NET_OFFLINE=true cargo build --release --offline",
 "hooks": {"guard": "getong_stateright_verif",
           "enable": "RUSTFLAGS='--cfg getong_stateright_verif' via /verif/harness/.cargo/config.toml (harness depends on /repo by path, so every check rebuilds from /repo's working tree)",
           "baseline_off_cmd": "cd /repo && cargo test --workspace --no-fail-fast --offline",
           "source_commits": hook_commits, "add_only": True},
 "engines": [
   {"name": "E3 actorstep", "path": "harness/src/engines/e3.rs", "serves_properties": ["C06","C07","C09"], "kind_free_text": "explicit enumeration of actor-system states/actions/handler outputs on the real ActorModel vs a reference interpreter; xplore over scripted systems"},
   {"name": "E4 identity", "path": "harness/src/engines/e4.rs", "serves_properties": ["C04"], "kind_free_text": "all pairs of small values: recording hasher stream, real fingerprint, component-wise identity"},
   {"name": "E1 graphs", "path": "harness/src/engines/e1.rs", "serves_properties": ["C01","C02","C03","C11","C12","C13"], "kind_free_text": "explicit enumeration of all small finite models, executed on the real checkers, compared with graph oracles"},
 ],
 "checks": checks,
 "notes": "exit 0 held / 1 VIOLATION / 2 machinery. known_findings.txt lists recorded findings and fixed defects. See DESIGN.md.",
 "not_applicable": [{"property_id": i, "reason": NOT_YET} for i in ids if i not in T],
}
json.dump(m, open(os.path.join(ROOT, "MANIFEST.json"), "w"), indent=1)
print("claimed", len(checks), "not yet", len(m["not_applicable"]))
