#!/usr/bin/env python3
"""tools/record_scratch.py <results-dir> [names...] - reads the output files of tools/scratch_seed.sh
(<results-dir>/<seed>.txt) and records per seed which quick checks reported a violation into seeded/<seed>/meta.json."""
import json, os, re, sys
ROOT = os.path.dirname(os.path.dirname(os.path.abspath(__file__)))
rd = sys.argv[1]
names = sys.argv[2:] or sorted(f[:-4] for f in os.listdir(rd) if f.endswith(".txt"))
for n in names:
    mp = os.path.join(ROOT, "seeded", n, "meta.json")
    f = os.path.join(rd, n + ".txt")
    if not (os.path.exists(mp) and os.path.exists(f)):
        continue
    m = json.load(open(mp))
    res, cur = {}, None
    for line in open(f).read().splitlines():
        mm = re.match(r"(C\d\d) \[quick\].*wall=([\d.]+)s.*violations=(\d+)", line)
        if mm:
            cur = mm.group(1)
            res[cur] = {"exit": 1 if int(mm.group(3)) > 0 else 0, "violations": int(mm.group(3)), "first_key": "", "wall_s": float(mm.group(2))}
        elif line.startswith("MACHINERY") and cur is None:
            res.setdefault("machinery", []).append(line[:200])
        elif line.strip().startswith("key=") and cur and not res[cur]["first_key"]:
            res[cur]["first_key"] = line.strip()[:300]
    m["result"] = res
    m["caught_by"] = [c for c, v in res.items() if isinstance(v, dict) and v["exit"] == 1]
    m["run"] = "tools/scratch_seed.sh: quick checks against a scratch worktree of /repo's HEAD with the patch applied (harness copy pointed at it)"
    m.setdefault("history", "caught as built")
    json.dump(m, open(mp, "w"), indent=1)
    print(n, m["caught_by"] or "MISSED")
