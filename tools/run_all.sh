#!/bin/bash
# usage: tools/run_all.sh [quick|thorough] [ids...]
cd "$(dirname "$0")/.."
tier=${1:-quick}; shift
ids=${@:-C01 C02 C03 C04 C05 C06 C07 C08 C09 C10 C11 C12 C13 C14 C15 C16 C17 C18 C19 C20}
rc_all=0
for p in $ids; do
  out=$(./check $p --tier $tier 2>&1); rc=$?
  echo "$out" | tail -1 | sed "s/^/rc=$rc /"
  if [ $rc -ne 0 ]; then rc_all=1; echo "$out" | grep -E "VIOLATION|MACHINERY|key=" | head -5; fi
done
exit $rc_all
