#!/bin/bash
# usage: tools/scratch_seed.sh <patch.diff> <check ids...>
# Runs quick checks against a scratch worktree of /repo with the patch applied (does not touch /repo).
set -u
patch=$(realpath $1); shift
S=${SCRATCH_DIR:-/tmp/seedrun}   # several instances may run side by side, each with its own SCRATCH_DIR
if [ ! -d $S/repo ]; then mkdir -p $S; git -C /repo worktree add --detach $S/repo HEAD -q; fi
git -C $S/repo checkout -q --detach $(git -C /repo rev-parse HEAD); git -C $S/repo checkout -q -- .
rsync -a --delete --exclude target ${HARNESS_SRC:-/verif/harness}/ $S/harness/   # HARNESS_SRC: a frozen copy, so that /verif/harness can be edited meanwhile
sed -i "s#path = \"/repo\"#path = \"$S/repo\"#" $S/harness/Cargo.toml
git -C $S/repo apply $patch || { echo "patch does not apply"; exit 2; }
for c in "$@"; do
  out=$(VERIF_HARNESS_DIR=$S/harness VERIF_EVIDENCE_DIR=$S/evidence /verif/check $c --tier quick 2>&1)
  echo "$out" | grep -E "MACHINERY|\[quick\]" | cut -c1-260
  echo "$out" | grep -E "key=|VIOLATION" | cut -c1-260 | head -4
done
git -C $S/repo checkout -q -- .
