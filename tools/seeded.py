#!/usr/bin/env python3
"""tools/seeded.py [names...]  - apply each seeded change to /repo, run the quick checks listed in its
meta.json ("checks", default: the property it breaks), record which report a VIOLATION, revert."""
import json, os, subprocess, sys, time
ROOT = os.path.dirname(os.path.dirname(os.path.abspath(__file__)))
SEED = os.path.join(ROOT, "seeded")
names = sys.argv[1:] or sorted(d for d in os.listdir(SEED) if os.path.isdir(os.path.join(SEED, d)))
def sh(cmd, **kw):
    return subprocess.run(cmd, shell=True, text=True, capture_output=True, **kw)
assert sh("git -C /repo status --porcelain").stdout.strip() == "", "/repo is not clean"
rows = []
for n in names:
    d = os.path.join(SEED, n)
    meta_p = os.path.join(d, "meta.json")
    meta = json.load(open(meta_p)) if os.path.exists(meta_p) else {}
    prop = meta.get("property", n.split("-")[0])
    checks = meta.get("checks", [prop])
    r = sh(f"git -C /repo apply {d}/patch.diff")
    if r.returncode != 0:
        print(n, "patch does not apply:", r.stderr[:200]); continue
    caught = {}
    try:
        for c in checks:
            t0 = time.time()
            out = sh(f"{ROOT}/check {c} --tier quick")
            keys = [l.strip() for l in out.stdout.splitlines() if l.strip().startswith("key=")]
            caught[c] = {"exit": out.returncode, "violations": sum(1 for l in out.stdout.splitlines() if l.startswith("VIOLATION")), "first_key": keys[0][:300] if keys else "", "wall_s": round(time.time() - t0, 1)}
            print(n, c, "exit", out.returncode, keys[0][:160] if keys else "")
    finally:
        sh("git -C /repo checkout -- .")
    meta["property"] = prop
    meta["checks"] = checks
    meta["result"] = caught
    meta["caught_by"] = [c for c, v in caught.items() if v["exit"] == 1]
    json.dump(meta, open(meta_p, "w"), indent=1)
    rows.append((n, prop, meta.get("needs", ""), ", ".join(meta["caught_by"]) or "MISSED"))
# rebuild harness against the clean tree and refresh evidence of the touched checks
print("restoring: rebuilding against the clean tree")
sh(f"cd {ROOT}/harness && CARGO_NET_OFFLINE=true cargo build --release --offline")
