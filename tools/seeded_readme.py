#!/usr/bin/env python3
"""tools/seeded_readme.py - rewrites the table of seeded/README.md from the meta.json files (the text above the
table is kept)."""
import json, os
ROOT = os.path.dirname(os.path.dirname(os.path.abspath(__file__)))
SEED = os.path.join(ROOT, "seeded")
readme = os.path.join(SEED, "README.md")
text = open(readme).read()
head = text.split("| seed |")[0]
tail = ""
for marker in ("\nRounds: 1 (`-a`)", "\nRound 1 (`-a`)"):
    if marker in text:
        tail = marker + text.split(marker, 1)[1]
        break
rows = ["| seed | property | change | needs | quick checks that report it | history |", "|---|---|---|---|---|---|"]
n = caught_own = 0
for d in sorted(os.listdir(SEED)):
    mp = os.path.join(SEED, d, "meta.json")
    if not os.path.exists(mp):
        continue
    m = json.load(open(mp))
    n += 1
    cb = m.get("caught_by", [])
    if m["property"] in cb:
        caught_own += 1
    esc = lambda s: str(s).replace("|", "\\|").replace("\n", " ")
    rows.append(f"| {d} | {m['property']} | {esc(m.get('what',''))} | {esc(m.get('needs',''))} | {', '.join(cb) or 'MISSED'} | {esc(m.get('history','caught as built'))} |")
open(readme, "w").write(head + "\n".join(rows) + "\n" + tail)
print(f"{n} seeds, {caught_own} reported by the quick check of their own property")
