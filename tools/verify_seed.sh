#!/bin/bash
# usage: tools/verify_seed.sh /tmp/seed/wt_C01 <name> [mutation-subdir, default "mutation"]
# Confirms in the scratch worktree: patch applies, crate builds, repository suite unchanged (84 pass / 3
# known failures), demonstration fails with the change and passes without it. Copies the kept files to
# /verif/seeded/<name>/.
set -u
wt=$1; name=$2; sub=${3:-mutation}
cd "$wt" || exit 2
export CARGO_TARGET_DIR=$wt/target CARGO_NET_OFFLINE=true
git checkout -q -- . ; git clean -fdq tests 2>/dev/null
patch=$wt/$sub/patch.diff
demo=$(ls $wt/$sub/*.rs | head -1)
[ -f "$patch" ] && [ -f "$demo" ] || { echo "missing patch or demo"; exit 2; }
mkdir -p tests; cp "$demo" tests/demo_seed.rs
echo "== demo on unchanged tree"
timeout 600 cargo test --offline --test demo_seed 2>&1 | grep -E "^test result|error(\[|:)" | head -3
r0=${PIPESTATUS[0]}
git apply "$patch" || { echo "patch does not apply"; exit 2; }
echo "== suite with the change"
timeout 900 cargo test --lib --offline 2>&1 | grep -E "^test result|FAILED" | head -6
echo "== doc tests with the change"
timeout 900 cargo test --doc --offline 2>&1 | grep -E "^test result" | head -2
echo "== demo with the change"
timeout 600 cargo test --offline --test demo_seed 2>&1 | grep -E "^test result|error(\[|:)|panicked" | head -4
git checkout -q -- . ; rm -f tests/demo_seed.rs
mkdir -p /verif/seeded/$name
cp "$patch" /verif/seeded/$name/patch.diff; cp "$demo" /verif/seeded/$name/demo.rs; cp $wt/$sub/README.md /verif/seeded/$name/AGENT_README.md 2>/dev/null
echo "copied to /verif/seeded/$name"
